//! A recording / fault-injecting `TransactableStorage` wrapper. It sits between
//! `Database<..>` / `GenesisDatabase<..>` and the real key-value store (the
//! existing data-source boundary), sees every commit of the on-chain and
//! off-chain databases in one total order, and can
//!   * fail the k-th commit of the current import attempt (nothing is written),
//!   * flip the service `StateWatcher` to `Stopping` right after the k-th commit,
//!   * fail the r-th point read of a data column.

use fuel_core::{
    database::database_description::DatabaseDescription,
    state::{
        IterableKeyValueView,
        KeyValueView,
        TransactableStorage,
        data_source::DataSourceType,
    },
};
use fuel_core_services::State;
use fuel_core_storage::{
    Error as StorageError,
    Result as StorageResult,
    iter::{
        BoxedIter,
        IterDirection,
        IterableStore,
    },
    kv_store::{
        KVItem,
        KeyItem,
        KeyValueInspect,
        StorageColumn,
        Value,
        WriteOperation,
    },
    transactional::{
        Changes,
        StorageChanges,
    },
};
use std::{
    collections::BTreeMap,
    hash::{
        Hash,
        Hasher,
    },
    sync::{
        Arc,
        Mutex,
    },
};
use tokio::sync::watch;

#[derive(Clone, Copy, Debug, PartialEq, Eq, Hash)]
pub enum Fault {
    None,
    /// cancellation right after the k-th commit of the attempt (k = 0: before any)
    CancelAfter(u64),
    /// the k-th commit of the attempt (1-based) returns an error, nothing written
    FailCommit(u64),
    /// the r-th point read (0-based) of a non-progress column returns an error
    FailRead(u64),
    /// the r-th point read (0-based) of the *progress* column returns an error
    /// (probe only, outside the property's fault model)
    FailProgressRead(u64),
    /// the n-th commit (1-based) of the finalization phase (after the last group
    /// commit: 1 = removal of the off-chain progress table, 2 = genesis block)
    /// fails (probe only, outside the property's fault model)
    FailFinalizeCommit(u64),
}

impl Fault {
    pub fn label(&self) -> String {
        match self {
            Fault::None => "none".into(),
            Fault::CancelAfter(k) => format!("cancel_after:{k}"),
            Fault::FailCommit(k) => format!("fail_commit:{k}"),
            Fault::FailRead(r) => format!("fail_read:{r}"),
            Fault::FailProgressRead(r) => format!("fail_progress_read:{r}"),
            Fault::FailFinalizeCommit(n) => format!("fail_finalize_commit:{n}"),
        }
    }
}

#[derive(Clone, Debug)]
pub struct CommitRec {
    pub attempt: u32,
    /// ordinal among the import-phase commits of its attempt (1-based), 0 for
    /// commits of the finalization phase
    pub ordinal: u64,
    /// 0 = on-chain, 1 = off-chain
    pub db: u8,
    /// (migration name, group index) written to the progress table
    pub progress_inserts: Vec<(String, usize)>,
    pub progress_removes: usize,
    pub data_writes: usize,
    pub digest: u64,
}

/// harness-side perturbations for the oracle self-test
#[derive(Clone, Copy, Debug, PartialEq, Eq)]
pub enum Sabotage {
    None,
    /// the wrapper silently drops the progress-table writes of the n-th commit
    DropProgressOfCommit(u64),
}

#[derive(Default)]
pub struct CtlState {
    pub attempt: u32,
    pub fault: Option<Fault>,
    pub fault_hit: Option<String>,
    /// progress entries of the commit at which the commit/cancel fault was injected
    pub hit_progress: Vec<(String, usize)>,
    pub finalizing: bool,
    pub attempt_commits: u64,
    pub attempt_reads: u64,
    pub attempt_progress_reads: u64,
    pub attempt_finalize_commits: u64,
    pub total_commits: u64,
    pub log: Vec<CommitRec>,
    pub shadow: BTreeMap<(u8, u32, Vec<u8>), Vec<u8>>,
    pub cancel: Option<watch::Sender<State>>,
    pub sabotage: Option<Sabotage>,
}

#[derive(Clone, Default)]
pub struct Ctl(pub Arc<Mutex<CtlState>>);

impl Ctl {
    pub fn lock(&self) -> std::sync::MutexGuard<'_, CtlState> {
        self.0.lock().unwrap_or_else(|e| e.into_inner())
    }

    pub fn begin_attempt(&self, fault: Fault, cancel: watch::Sender<State>) {
        let mut g = self.lock();
        g.attempt += 1;
        g.fault = Some(fault);
        g.fault_hit = None;
        g.hit_progress.clear();
        g.finalizing = false;
        g.attempt_commits = 0;
        g.attempt_reads = 0;
        g.attempt_progress_reads = 0;
        g.attempt_finalize_commits = 0;
        if let Fault::CancelAfter(0) = fault {
            cancel.send_replace(State::Stopping);
            g.fault_hit = Some("cancelled before the first commit".into());
            g.fault = Some(Fault::None);
        }
        g.cancel = Some(cancel);
    }

    /// simulate the death of the process that ran the attempt
    pub fn end_attempt(&self) {
        let mut g = self.lock();
        if let Some(c) = g.cancel.take() {
            c.send_replace(State::Stopped);
        }
        g.fault = None;
    }
}

struct Summary {
    progress_inserts: Vec<(String, usize)>,
    progress_removes: usize,
    data_writes: usize,
    digest: u64,
    ops: Vec<(u32, Vec<u8>, Option<Vec<u8>>)>,
}

fn summarize(list: &[&Changes], progress_col: u32) -> Summary {
    let mut hasher = std::collections::hash_map::DefaultHasher::new();
    let mut s = Summary {
        progress_inserts: vec![],
        progress_removes: 0,
        data_writes: 0,
        digest: 0,
        ops: vec![],
    };
    for changes in list {
        let mut cols: Vec<&u32> = changes.keys().collect();
        cols.sort();
        for col in cols {
            for (key, op) in &changes[col] {
                let key: &[u8] = key.as_ref();
                col.hash(&mut hasher);
                key.hash(&mut hasher);
                match op {
                    WriteOperation::Insert(v) => {
                        1u8.hash(&mut hasher);
                        v.as_ref().hash(&mut hasher);
                        s.ops.push((*col, key.to_vec(), Some(v.to_vec())));
                        if *col == progress_col {
                            let name: String = postcard::from_bytes(key)
                                .unwrap_or_else(|_| format!("undecodable:{}", hex::encode(key)));
                            let idx: usize = postcard::from_bytes(v.as_ref()).unwrap_or(usize::MAX);
                            s.progress_inserts.push((name, idx));
                        } else {
                            s.data_writes += 1;
                        }
                    }
                    WriteOperation::Remove => {
                        0u8.hash(&mut hasher);
                        s.ops.push((*col, key.to_vec(), None));
                        if *col == progress_col {
                            s.progress_removes += 1;
                        } else {
                            s.data_writes += 1;
                        }
                    }
                }
            }
        }
        0xffu8.hash(&mut hasher);
    }
    s.digest = hasher.finish();
    s
}

pub struct FaultStore<D>
where
    D: DatabaseDescription,
{
    inner: DataSourceType<D>,
    ctl: Ctl,
    db: u8,
    progress_col: u32,
}

impl<D> FaultStore<D>
where
    D: DatabaseDescription,
{
    pub fn new(inner: DataSourceType<D>, ctl: Ctl, db: u8, progress_col: u32) -> Self {
        Self {
            inner,
            ctl,
            db,
            progress_col,
        }
    }

    fn on_read(&self, column: D::Column) -> StorageResult<()> {
        let mut g = self.ctl.lock();
        if g.fault.is_none() {
            return Ok(());
        }
        if column.id() == self.progress_col {
            let n = g.attempt_progress_reads;
            g.attempt_progress_reads += 1;
            if g.fault == Some(Fault::FailProgressRead(n)) {
                g.fault = Some(Fault::None);
                g.fault_hit = Some(format!("progress read #{n} on db {}", self.db));
                return Err(StorageError::Other(anyhow::anyhow!(
                    "injected progress read failure #{n}"
                )));
            }
            return Ok(());
        }
        if g.finalizing {
            // after the progress tables started to be removed the import phase is
            // over: outside the property's fault model
            return Ok(());
        }
        let n = g.attempt_reads;
        g.attempt_reads += 1;
        if g.fault == Some(Fault::FailRead(n)) {
            g.fault = Some(Fault::None);
            g.fault_hit = Some(format!(
                "read #{n} of column {} on db {} after {} commits",
                column.name(),
                self.db,
                g.attempt_commits
            ));
            return Err(StorageError::Other(anyhow::anyhow!(
                "injected read failure #{n}"
            )));
        }
        Ok(())
    }
}

impl<D> std::fmt::Debug for FaultStore<D>
where
    D: DatabaseDescription,
{
    fn fmt(&self, f: &mut std::fmt::Formatter<'_>) -> std::fmt::Result {
        f.debug_struct("FaultStore").field("db", &self.db).finish()
    }
}

impl<D> KeyValueInspect for FaultStore<D>
where
    D: DatabaseDescription,
{
    type Column = D::Column;

    fn exists(&self, key: &[u8], column: Self::Column) -> StorageResult<bool> {
        self.on_read(column)?;
        self.inner.exists(key, column)
    }

    fn size_of_value(&self, key: &[u8], column: Self::Column) -> StorageResult<Option<usize>> {
        self.on_read(column)?;
        self.inner.size_of_value(key, column)
    }

    fn get(&self, key: &[u8], column: Self::Column) -> StorageResult<Option<Value>> {
        self.on_read(column)?;
        self.inner.get(key, column)
    }

    fn read_exact(
        &self,
        key: &[u8],
        column: Self::Column,
        offset: usize,
        buf: &mut [u8],
    ) -> StorageResult<Result<usize, fuel_core_storage::StorageReadError>> {
        self.on_read(column)?;
        self.inner.read_exact(key, column, offset, buf)
    }

    fn read_zerofill(
        &self,
        key: &[u8],
        column: Self::Column,
        offset: usize,
        buf: &mut [u8],
    ) -> StorageResult<Result<usize, fuel_core_storage::StorageReadError>> {
        self.on_read(column)?;
        self.inner.read_zerofill(key, column, offset, buf)
    }
}

impl<D> IterableStore for FaultStore<D>
where
    D: DatabaseDescription,
{
    fn iter_store(
        &self,
        column: Self::Column,
        prefix: Option<&[u8]>,
        start: Option<&[u8]>,
        direction: IterDirection,
    ) -> BoxedIter<'_, KVItem> {
        self.inner.iter_store(column, prefix, start, direction)
    }

    fn iter_store_keys(
        &self,
        column: Self::Column,
        prefix: Option<&[u8]>,
        start: Option<&[u8]>,
        direction: IterDirection,
    ) -> BoxedIter<'_, KeyItem> {
        self.inner.iter_store_keys(column, prefix, start, direction)
    }
}

impl<D> TransactableStorage<D::Height> for FaultStore<D>
where
    D: DatabaseDescription,
{
    fn commit_changes(
        &self,
        height: Option<D::Height>,
        changes: StorageChanges,
    ) -> StorageResult<()> {
        let mut changes = changes;
        // the lock is held over the inner commit: the log is the total order
        let mut g = self.ctl.lock();
        let summary = {
            let list: Vec<&Changes> = match &changes {
                StorageChanges::Changes(c) => vec![c],
                StorageChanges::ChangesList(l) => l.iter().collect(),
            };
            summarize(&list, self.progress_col)
        };
        if summary.progress_removes > 0 {
            g.finalizing = true;
        }
        // an empty change set (e.g. clearing an empty progress table) is not a
        // group commit
        let import_phase = g.fault.is_some() && !g.finalizing && !summary.ops.is_empty();
        let mut ordinal = 0;
        if import_phase {
            g.attempt_commits += 1;
            ordinal = g.attempt_commits;
            if g.fault == Some(Fault::FailCommit(ordinal)) {
                g.fault = Some(Fault::None);
                g.fault_hit = Some(format!(
                    "commit #{ordinal} db {} progress {:?}",
                    self.db, summary.progress_inserts
                ));
                g.hit_progress = summary.progress_inserts.clone();
                return Err(StorageError::Other(anyhow::anyhow!(
                    "injected commit failure at commit #{ordinal}"
                )));
            }
        }
        if g.fault.is_some() && g.finalizing {
            g.attempt_finalize_commits += 1;
            let n = g.attempt_finalize_commits;
            if g.fault == Some(Fault::FailFinalizeCommit(n)) {
                g.fault = Some(Fault::None);
                g.fault_hit = Some(format!("finalization commit #{n} db {}", self.db));
                return Err(StorageError::Other(anyhow::anyhow!(
                    "injected commit failure at finalization commit #{n}"
                )));
            }
        }
        g.total_commits += 1;
        let mut dropped_progress = false;
        if g.sabotage == Some(Sabotage::DropProgressOfCommit(g.total_commits)) {
            // self-test only: a deliberately wrong storage that loses the
            // progress write of one commit
            let strip = |c: &mut Changes| {
                c.remove(&self.progress_col);
            };
            match &mut changes {
                StorageChanges::Changes(c) => strip(c),
                StorageChanges::ChangesList(l) => l.iter_mut().for_each(strip),
            }
            dropped_progress = true;
        }
        self.inner.commit_changes(height, changes)?;
        for (col, key, v) in &summary.ops {
            if dropped_progress && *col == self.progress_col {
                continue;
            }
            match v {
                Some(v) => {
                    g.shadow.insert((self.db, *col, key.clone()), v.clone());
                }
                None => {
                    g.shadow.remove(&(self.db, *col, key.clone()));
                }
            }
        }
        let attempt = g.attempt;
        g.log.push(CommitRec {
            attempt,
            ordinal,
            db: self.db,
            progress_inserts: summary.progress_inserts.clone(),
            progress_removes: summary.progress_removes,
            data_writes: summary.data_writes,
            digest: summary.digest,
        });
        if import_phase && g.fault == Some(Fault::CancelAfter(ordinal)) {
            g.fault = Some(Fault::None);
            g.fault_hit = Some(format!(
                "cancel after commit #{ordinal} db {} progress {:?}",
                self.db, summary.progress_inserts
            ));
            g.hit_progress = summary.progress_inserts.clone();
            if let Some(c) = &g.cancel {
                c.send_replace(State::Stopping);
            }
        }
        Ok(())
    }

    fn view_at_height(
        &self,
        height: &D::Height,
    ) -> StorageResult<KeyValueView<Self::Column, D::Height>> {
        self.inner.view_at_height(height)
    }

    fn latest_view(&self) -> StorageResult<IterableKeyValueView<Self::Column, D::Height>> {
        self.inner.latest_view()
    }

    fn rollback_block_to(&self, height: &D::Height) -> StorageResult<()> {
        self.inner.rollback_block_to(height)
    }

    fn shutdown(&self) {
        self.inner.shutdown()
    }
}
