//! C40 — genesis import can be interrupted and resumed without changing the result.
//!
//! Per generated multi-table snapshot (exported by the real `Exporter` from a
//! directly populated source database):
//!   * baseline: uninterrupted `execute_genesis_block` + commit into fresh
//!     databases whose data sources are wrapped by the recording `FaultStore`;
//!     G = number of commits of the import phase, R = number of point reads;
//!   * for EVERY k in 0..=G: cancellation right after the k-th commit
//!     (StateWatcher flipped to Stopping from inside the commit);
//!   * for EVERY k in 1..=G: the k-th commit fails (nothing written);
//!   * for every r in 0..R (sampled for snapshots with racing table workers):
//!     the r-th storage read of a data column fails (in-group failure point);
//!   then the import is restarted (fresh runtime, fresh watcher = new process)
//!   until it completes.
//! Oracle: the import completes; every (migration, group) is committed exactly
//! once over all attempts; the multiset of committed change sets equals the
//! baseline's; the final raw content of every on-chain and off-chain column
//! equals the baseline's.

use crate::{
    dump::{
        self,
        DbDump,
    },
    faultdb::{
        CommitRec,
        Ctl,
        Fault,
        FaultStore,
        Sabotage,
    },
    model::{
        Flavor,
        Model,
    },
    snapio::{
        self,
        Backend,
        Enc,
    },
};
use fuel_core::{
    combined_database::CombinedDatabase,
    database::{
        Database,
        database_description::{
            off_chain::OffChain,
            on_chain::OnChain,
        },
    },
    fuel_core_graphql_api::storage::Column as OffCol,
    service::{
        Config,
        adapters::block_importer::NoopBlockReconciliationWriteAdapter,
        genesis::execute_genesis_block,
    },
    state::{
        data_source::DataSourceType,
        historical_rocksdb::StateRewindPolicy,
        in_memory::memory_store::MemoryStore,
        rocks_db::DatabaseConfig,
    },
};
use fuel_core_importer::ports::{
    MockBlockVerifier,
    MockValidator,
};
use fuel_core_services::{
    State,
    StateWatcher,
};
use fuel_core_storage::{
    column::Column as OnCol,
    kv_store::StorageColumn,
};
use std::{
    collections::{
        BTreeMap,
        BTreeSet,
    },
    path::{
        Path,
        PathBuf,
    },
    sync::Arc,
    time::Duration,
};
use tokio::sync::watch;
use vcommon::{
    Args,
    Report,
    catch,
    rand::Rng,
    read_replay,
    rng_for,
    run_shards,
    serde_json::{
        Value,
        json,
    },
};

const GROUP_SIZES: [usize; 4] = [1, 2, 3, 7];

struct Snap {
    enc: Enc,
    gs: usize,
    flavor: Flavor,
    config: Config,
    /// exported snapshot table (column name) -> rows in the source database
    rows: BTreeMap<String, usize>,
    summary: Value,
}

/// tables written by `Exporter::write_full_snapshot` per encoding (names of the
/// storage columns = names of the snapshot tables)
fn exported_tables(enc: Enc) -> Vec<&'static str> {
    let mut t = vec![
        "Coins",
        "Messages",
        "Blobs",
        "ContractsRawCode",
        "ContractsLatestUtxo",
        "ContractsState",
        "ContractsAssets",
    ];
    if let Enc::Parquet(_) = enc {
        t.extend([
            "FuelBlocks",
            "FuelBlockMerkleData",
            "FuelBlockMerkleMetadata",
            "Transactions",
            "FuelBlockConsensus",
            "ProcessedTransactions",
            "TransactionStatus",
            "TransactionsByOwnerBlockIdx",
            "OldFuelBlocks",
            "OldFuelBlockConsensus",
            "OldTransactions",
            "SpentMessages",
        ]);
    }
    t
}

fn build_snapshot(dir: &Path, shard_seed: u64, enc: Enc, gs: usize, flavor: Flavor) -> Result<Snap, String> {
    let mut rng = rng_for(shard_seed, &[40, 1]);
    let model = Model::generate(&mut rng, gs, flavor);
    let rt = snapio::new_rt();
    let src = CombinedDatabase::in_memory();
    model.populate(&src).map_err(|e| format!("populate: {e}"))?;
    let on = dump::dump_on_chain(src.on_chain())?;
    let off = dump::dump_off_chain(src.off_chain())?;
    let mut rows = BTreeMap::new();
    for t in exported_tables(enc) {
        let n = on
            .get(t)
            .map(|c| c.len())
            .filter(|n| *n > 0)
            .or_else(|| off.get(t).map(|c| c.len()))
            .unwrap_or(0);
        rows.insert(t.to_string(), n);
    }
    if enc == Enc::Json {
        // the JSON reader derives a `ContractsInfo` table (one row per contract,
        // zero salt) from the contract list of the state config
        rows.insert("ContractsInfo".to_string(), model.contracts.len());
    }
    let snap_dir = dir.join("snapshot");
    let metadata = snapio::export(&rt, &src, &snap_dir, enc, gs).map_err(|e| format!("export: {e:#}"))?;
    let config = snapio::config_for(metadata, gs).map_err(|e| format!("open snapshot: {e:#}"))?;
    Ok(Snap {
        enc,
        gs,
        flavor,
        config,
        rows,
        summary: model.summary(),
    })
}

struct Target {
    db: CombinedDatabase,
    ctl: Ctl,
}

fn new_target(backend: Backend, dir: &Path) -> Result<Target, String> {
    let ctl = Ctl::default();
    let (on_inner, off_inner): (DataSourceType<OnChain>, DataSourceType<OffChain>) = match backend {
        Backend::Memory => (
            Arc::new(MemoryStore::<OnChain>::default()),
            Arc::new(MemoryStore::<OffChain>::default()),
        ),
        Backend::Rocks => {
            std::fs::create_dir_all(dir).map_err(|e| e.to_string())?;
            let on = Database::<OnChain>::open_rocksdb(dir, StateRewindPolicy::NoRewind, DatabaseConfig::config_for_tests())
                .map_err(|e| format!("open rocksdb: {e}"))?;
            let off = Database::<OffChain>::open_rocksdb(dir, StateRewindPolicy::NoRewind, DatabaseConfig::config_for_tests())
                .map_err(|e| format!("open rocksdb: {e}"))?;
            (on.into_inner().0.data, off.into_inner().0.data)
        }
    };
    let on = Database::<OnChain>::new(Arc::new(FaultStore::<OnChain>::new(
        on_inner,
        ctl.clone(),
        0,
        OnCol::GenesisMetadata.id(),
    )));
    let off = Database::<OffChain>::new(Arc::new(FaultStore::<OffChain>::new(
        off_inner,
        ctl.clone(),
        1,
        OffCol::GenesisMetadata.id(),
    )));
    let db = CombinedDatabase::new(
        on,
        off,
        Database::in_memory(),
        Database::in_memory(),
        Database::in_memory(),
        Database::in_memory(),
    );
    Ok(Target { db, ctl })
}

#[derive(Clone, Debug)]
struct AttemptRec {
    fault: Fault,
    result: Result<(), String>,
    commits: u64,
    reads: u64,
    hit: Option<String>,
    hit_progress: Vec<(String, usize)>,
}

struct Outcome {
    completed: bool,
    attempts: Vec<AttemptRec>,
    log: Vec<CommitRec>,
    on_dump: DbDump,
    off_dump: DbDump,
}

fn run_attempt(snap: &Snap, target: &Target, fault: Fault) -> AttemptRec {
    let (tx, rx) = watch::channel(State::Started);
    target.ctl.begin_attempt(fault, tx);
    let rt = snapio::new_rt();
    let res = catch(|| {
        rt.block_on(async {
            let watcher: StateWatcher = rx.into();
            let result = execute_genesis_block(watcher, &snap.config, &target.db).await?;
            let importer = fuel_core_importer::Importer::new(
                snap.config
                    .snapshot_reader
                    .chain_config()
                    .consensus_parameters
                    .chain_id(),
                snap.config.block_importer.clone(),
                target.db.on_chain().clone(),
                MockValidator::default(),
                MockBlockVerifier::default(),
                NoopBlockReconciliationWriteAdapter,
            );
            importer.commit_result(result).await?;
            anyhow::Ok(())
        })
    });
    // the process that ran this attempt dies: stop signal + wait until every
    // worker it left on the blocking pool has ended
    target.ctl.end_attempt();
    rt.shutdown_timeout(Duration::from_secs(60));
    let g = target.ctl.lock();
    AttemptRec {
        fault,
        result: match res {
            Ok(Ok(())) => Ok(()),
            Ok(Err(e)) => Err(format!("{e:#}")),
            Err(p) => Err(format!("panic: {p}")),
        },
        commits: g.attempt_commits,
        reads: g.attempt_reads,
        hit: g.fault_hit.clone(),
        hit_progress: g.hit_progress.clone(),
    }
}

fn run_scenario(snap: &Snap, faults: &[Fault], backend: Backend, dir: &Path, sabotage: Sabotage) -> Result<Outcome, String> {
    let target = new_target(backend, dir)?;
    target.ctl.lock().sabotage = Some(sabotage);
    let max_attempts = faults.len() + 2;
    let mut attempts = Vec::new();
    let mut completed = false;
    for i in 0..max_attempts {
        let fault = faults.get(i).copied().unwrap_or(Fault::None);
        let rec = run_attempt(snap, &target, fault);
        let ok = rec.result.is_ok();
        attempts.push(rec);
        if ok {
            completed = true;
            break;
        }
    }
    let on_dump = dump::dump_on_chain(target.db.on_chain())?;
    let off_dump = dump::dump_off_chain(target.db.off_chain())?;
    let (log, shadow) = {
        let g = target.ctl.lock();
        (g.log.clone(), g.shadow.clone())
    };
    // the shadow (replay of the committed change sets) must describe the store
    let mut from_dumps = BTreeMap::new();
    for (dbi, d, cols) in [
        (0u8, &on_dump, dump::ON_CHAIN_COLUMNS.iter().map(|c| (c.name(), c.id())).collect::<Vec<_>>()),
        (1u8, &off_dump, dump::OFF_CHAIN_COLUMNS.iter().map(|c| (c.name(), c.id())).collect::<Vec<_>>()),
    ] {
        for (name, id) in cols {
            if let Some(col) = d.get(&name) {
                for (k, v) in col {
                    from_dumps.insert((dbi, id, k.clone()), v.clone());
                }
            }
        }
    }
    if from_dumps != shadow {
        return Err(format!(
            "harness: replay of the recorded commits ({} entries) does not match the store content ({} entries)",
            shadow.len(),
            from_dumps.len()
        ));
    }
    let mut on_dump = on_dump;
    let mut off_dump = off_dump;
    dump::canonicalize_metadata(&mut on_dump);
    dump::canonicalize_metadata(&mut off_dump);
    target.db.shutdown();
    Ok(Outcome {
        completed,
        attempts,
        log,
        on_dump,
        off_dump,
    })
}

fn fault_kind(faults: &[Fault]) -> &'static str {
    if faults.len() > 1 {
        return "double";
    }
    match faults.first() {
        None | Some(Fault::None) => "none",
        Some(Fault::CancelAfter(_)) => "cancel",
        Some(Fault::FailCommit(_)) => "commit_failure",
        Some(Fault::FailRead(_)) => "read_failure",
        Some(Fault::FailProgressRead(_)) => "progress_read_failure",
        Some(Fault::FailFinalizeCommit(_)) => "finalize_commit_failure",
    }
}

/// group commits of the import phase
fn import_commits(log: &[CommitRec]) -> impl Iterator<Item = &CommitRec> {
    log.iter().filter(|c| c.progress_removes == 0 && (!c.progress_inserts.is_empty() || c.data_writes > 0))
}

fn expected_groups(snap: &Snap, baseline: &Outcome) -> BTreeMap<String, usize> {
    // migration names ("<snapshot table> -> <written table>") as used by the
    // importer; how many groups each must have follows from the model:
    // ceil(rows of the snapshot table / group size)
    let mut names = BTreeSet::new();
    for c in &baseline.log {
        for (n, _) in &c.progress_inserts {
            names.insert(n.clone());
        }
    }
    names
        .into_iter()
        .map(|n| {
            let table = n.split(" -> ").next().unwrap_or("").to_string();
            let rows = snap.rows.get(&table).copied().unwrap_or(0);
            (n, rows.div_ceil(snap.gs))
        })
        .collect()
}

struct Judge<'a> {
    report: &'a Report,
    selftest: bool,
    replay: Value,
}

impl Judge<'_> {
    fn violation(&self, sig: String, detail: String) {
        let sig = if self.selftest { format!("selftest:{sig}") } else { sig };
        self.report.violation(sig, detail, self.replay.clone());
    }
}

fn describe_attempts(o: &Outcome) -> String {
    o.attempts
        .iter()
        .enumerate()
        .map(|(i, a)| {
            format!(
                "attempt {}: fault {} hit {:?}; {} import commits; result {:?}",
                i + 1,
                a.fault.label(),
                a.hit,
                a.commits,
                a.result
            )
        })
        .collect::<Vec<_>>()
        .join(" | ")
}

fn judge(j: &Judge, snap: &Snap, expected: &BTreeMap<String, usize>, baseline: Option<&Outcome>, sc: &Outcome, kind: &str) {
    let ctx = format!(
        "enc={} group_size={} flavor={:?}; {}",
        snap.enc.name(),
        snap.gs,
        snap.flavor,
        describe_attempts(sc)
    );
    if !sc.completed {
        j.violation(
            format!("import_not_resumable fault={kind}"),
            format!("the import did not complete after {} attempts; {ctx}", sc.attempts.len()),
        );
        return;
    }
    // every (migration, group) exactly once over all attempts
    let mut applied: BTreeMap<(String, usize), Vec<u32>> = BTreeMap::new();
    for c in &sc.log {
        for (n, i) in &c.progress_inserts {
            applied.entry((n.clone(), *i)).or_default().push(c.attempt);
        }
    }
    for (name, groups) in expected {
        for i in 0..*groups {
            match applied.get(&(name.clone(), i)).map(|v| v.len()).unwrap_or(0) {
                1 => {}
                0 => j.violation(
                    format!("group_skipped fault={kind}"),
                    format!("group {i} of '{name}' ({groups} groups) was never committed; {ctx}"),
                ),
                n => j.violation(
                    format!("group_applied_twice fault={kind}"),
                    format!(
                        "group {i} of '{name}' was committed {n} times (attempts {:?}); {ctx}",
                        applied.get(&(name.clone(), i))
                    ),
                ),
            }
        }
    }
    for ((name, i), attempts) in &applied {
        if expected.get(name).map(|g| i >= g).unwrap_or(true) {
            j.violation(
                format!("unexpected_group_committed fault={kind}"),
                format!(
                    "progress entry ('{name}', {i}) was committed (attempts {attempts:?}) but the snapshot table has only {:?} groups; {ctx}",
                    expected.get(name)
                ),
            );
        }
    }
    let Some(base) = baseline else { return };
    // the committed change sets are the baseline's, each once
    let mut want: BTreeMap<u64, i64> = BTreeMap::new();
    for c in import_commits(&base.log) {
        *want.entry(c.digest).or_default() += 1;
    }
    let mut desc: BTreeMap<u64, String> = BTreeMap::new();
    for c in import_commits(&sc.log) {
        *want.entry(c.digest).or_default() -= 1;
        desc.insert(
            c.digest,
            format!("{:?} (attempt {}, commit #{}, db {})", c.progress_inserts, c.attempt, c.ordinal, c.db),
        );
    }
    for c in import_commits(&base.log) {
        desc.entry(c.digest).or_insert_with(|| format!("{:?} (baseline)", c.progress_inserts));
    }
    let off: Vec<String> = want
        .iter()
        .filter(|(_, n)| **n != 0)
        .take(4)
        .map(|(d, n)| {
            format!(
                "{} {}x {}",
                if *n > 0 { "missing" } else { "surplus" },
                n.abs(),
                desc.get(d).cloned().unwrap_or_default()
            )
        })
        .collect();
    if !off.is_empty() {
        j.violation(
            format!("applied_changes_differ fault={kind}"),
            format!("the multiset of committed group change sets differs from the uninterrupted import: {off:?}; {ctx}"),
        );
    }
    // final state
    for (dbn, b, s) in [("on_chain", &base.on_dump, &sc.on_dump), ("off_chain", &base.off_dump, &sc.off_dump)] {
        for (table, d) in dump::diff_db(b, s) {
            j.violation(
                format!("final_state_differs fault={kind} db={dbn} table={table}"),
                format!(
                    "after interrupted+resumed import table {table} differs from the uninterrupted import ({}): {}; {ctx}",
                    d.kinds(),
                    d.describe()
                ),
            );
        }
    }
}

struct ShardPlan {
    enc: Enc,
    gs: usize,
    flavor: Flavor,
    backend: Backend,
}

fn shard_plan(shard: usize, thorough: bool) -> ShardPlan {
    let gs = GROUP_SIZES[shard % 4];
    let kind = (shard / 4) % 4;
    let (enc, flavor) = match kind {
        0 | 1 => (Enc::Parquet(if kind == 0 { 0 } else { 1 }), Flavor::Sequential),
        2 => (Enc::Parquet(1), Flavor::Parallel),
        _ => (Enc::Json, Flavor::Sequential),
    };
    let backend = if thorough && shard / 16 == 1 && shard % 16 < 4 {
        Backend::Rocks
    } else {
        Backend::Memory
    };
    ShardPlan {
        enc,
        gs,
        flavor,
        backend,
    }
}

fn is_nontrivial(sc: &Outcome) -> bool {
    // really interrupted in the middle: the first attempt failed after having
    // committed something, and a later attempt committed the rest
    sc.attempts.len() >= 2
        && sc.attempts[0].result.is_err()
        && sc.log.iter().any(|c| c.attempt == 1 && !c.progress_inserts.is_empty())
        && sc.log.iter().any(|c| c.attempt > 1 && !c.progress_inserts.is_empty())
}

#[allow(clippy::too_many_arguments)]
fn run_shard(report: &Report, args: &Args, shard: usize, shard_seed: u64, selftest: Option<u64>, only: Option<Vec<Fault>>, deadline: Duration) {
    let thorough = args.is_thorough();
    let plan = shard_plan(shard, thorough);
    let dir = args.scratch.join(format!("c40-{shard}"));
    let _ = std::fs::remove_dir_all(&dir);
    if let Err(e) = std::fs::create_dir_all(&dir) {
        report.inconclusive(format!("cannot create scratch dir {dir:?}: {e}"));
        return;
    }
    let snap = match build_snapshot(&dir, shard_seed, plan.enc, plan.gs, plan.flavor) {
        Ok(s) => s,
        Err(e) => {
            report.inconclusive(format!("shard {shard}: cannot build the snapshot: {e}"));
            return;
        }
    };
    let tdir = dir.join("target");
    let mut tcount = 0u64;
    let mut next_dir = || {
        tcount += 1;
        let d: PathBuf = tdir.join(tcount.to_string());
        d
    };
    let replay_of = |faults: &[Fault]| {
        json!({
            "seed": shard_seed, "shard": shard,
            "faults": faults.iter().map(|f| f.label()).collect::<Vec<_>>(),
            "encoding": format!("{:?}", snap.enc), "group_size": snap.gs, "flavor": format!("{:?}", snap.flavor),
            "backend": plan.backend.name(), "state": snap.summary,
        })
    };
    report.count("snapshots");
    report.count(&format!("snapshots.enc.{}", snap.enc.name()));
    report.count(&format!("snapshots.group_size.{}", snap.gs));
    report.count(&format!("snapshots.flavor.{:?}", snap.flavor));
    report.count(&format!("snapshots.backend.{}", plan.backend.name()));

    // ---- baseline (twice: the uninterrupted result must be well defined) ----
    let base = match run_scenario(&snap, &[], plan.backend, &next_dir(), Sabotage::None) {
        Ok(o) => o,
        Err(e) => {
            report.inconclusive(format!("shard {shard}: baseline: {e}"));
            return;
        }
    };
    let j = Judge {
        report,
        selftest: false,
        replay: replay_of(&[]),
    };
    report.eval();
    if !base.completed || base.attempts.len() != 1 {
        j.violation(
            "uninterrupted_import_failed".into(),
            format!("the import without any fault did not complete at the first attempt: {}", describe_attempts(&base)),
        );
        return;
    }
    let expected = expected_groups(&snap, &base);
    judge(&j, &snap, &expected, None, &base, "none");
    for (table, rows) in &snap.rows {
        // every exported table that has rows must be picked up by some import worker
        if *rows > 0 && !expected.keys().any(|n| n.starts_with(&format!("{table} -> "))) {
            j.violation(
                format!("snapshot_table_not_imported table={table}"),
                format!(
                    "snapshot table {table} has {rows} rows but no group of it was committed by the uninterrupted import; migrations seen: {:?}",
                    expected.keys().collect::<Vec<_>>()
                ),
            );
        }
    }
    let g_total = base.attempts[0].commits;
    let r_total = base.attempts[0].reads;
    let expected_total: usize = expected.values().sum();
    if g_total as usize != expected_total {
        // e.g. a commit without progress entry, or groups that are not single commits
        report.count("baseline.commit_count_differs_from_group_count");
        report.note(format!(
            "shard {shard}: baseline made {g_total} import-phase commits for {expected_total} expected groups"
        ));
    }
    let deterministic_order = expected.values().all(|g| *g < 10);
    report.add("baseline.group_commits", g_total);
    report.add("baseline.point_reads", r_total);
    report.add("baseline.migrations", expected.len() as u64);
    report.add("baseline.migrations_with_2plus_groups", expected.values().filter(|g| **g >= 2).count() as u64);
    report.add("baseline.migrations_with_10plus_groups", expected.values().filter(|g| **g >= 10).count() as u64);
    match run_scenario(&snap, &[], plan.backend, &next_dir(), Sabotage::None) {
        Ok(b2) => {
            report.eval();
            let differs = !dump::diff_db(&base.on_dump, &b2.on_dump).is_empty()
                || !dump::diff_db(&base.off_dump, &b2.off_dump).is_empty();
            if differs {
                j.violation(
                    "uninterrupted_import_nondeterministic".into(),
                    format!(
                        "two uninterrupted imports of the same snapshot end in different states: on-chain {:?} off-chain {:?}",
                        dump::diff_db(&base.on_dump, &b2.on_dump).iter().map(|(t, d)| format!("{t}: {}", d.describe())).collect::<Vec<_>>(),
                        dump::diff_db(&base.off_dump, &b2.off_dump).iter().map(|(t, d)| format!("{t}: {}", d.describe())).collect::<Vec<_>>()
                    ),
                );
                return;
            }
        }
        Err(e) => {
            report.inconclusive(format!("shard {shard}: second baseline: {e}"));
            return;
        }
    }
    if report.wants_sample() {
        report.sample(json!({
            "snapshot": replay_of(&[]),
            "group_commits_G": g_total,
            "point_reads_R": r_total,
            "groups_per_migration": expected,
        }));
    }

    // ---- self-test of the oracle ----
    if let Some(variant) = selftest {
        let js = Judge {
            report,
            selftest: true,
            replay: replay_of(&[]),
        };
        let k = (g_total / 2).max(1);
        match variant % 3 {
            0 => {
                // a deliberately wrong storage: loses the progress write of commit k,
                // then the import is cancelled right after that commit
                match run_scenario(&snap, &[Fault::CancelAfter(k)], plan.backend, &next_dir(), Sabotage::DropProgressOfCommit(k)) {
                    Ok(sc) => {
                        report.eval();
                        report.count("selftest.perturbed");
                        judge(&js, &snap, &expected, Some(&base), &sc, "cancel");
                    }
                    Err(e) => {
                        // the wrapper lied on purpose, so the replay check may trip
                        report.count("selftest.perturbed");
                        js.violation("harness_replay_mismatch".into(), e);
                    }
                }
            }
            1 => {
                // feed the oracle a log in which one group commit appears twice
                if let Ok(mut sc) = run_scenario(&snap, &[Fault::FailCommit(k)], plan.backend, &next_dir(), Sabotage::None) {
                    report.eval();
                    if let Some(c) = sc.log.iter().find(|c| !c.progress_inserts.is_empty()).cloned() {
                        sc.log.push(c);
                        report.count("selftest.perturbed");
                    }
                    judge(&js, &snap, &expected, Some(&base), &sc, "commit_failure");
                }
            }
            _ => {
                // corrupt one observed value of the final state
                if let Ok(mut sc) = run_scenario(&snap, &[Fault::CancelAfter(k)], plan.backend, &next_dir(), Sabotage::None) {
                    report.eval();
                    if let Some(col) = sc.off_dump.values_mut().find(|c| !c.is_empty()) {
                        if let Some(v) = col.values_mut().next() {
                            v.push(0xAA);
                            report.count("selftest.perturbed");
                        }
                    }
                    judge(&js, &snap, &expected, Some(&base), &sc, "cancel");
                }
            }
        }
        let _ = std::fs::remove_dir_all(&dir);
        return;
    }

    // ---- fault enumeration ----
    let mut plans: Vec<Vec<Fault>> = Vec::new();
    if let Some(only) = only {
        plans.push(only);
    } else {
        for k in 0..=g_total {
            plans.push(vec![Fault::CancelAfter(k)]);
        }
        for k in 1..=g_total {
            plans.push(vec![Fault::FailCommit(k)]);
        }
        // in-group failure points: storage reads made while groups are processed
        let read_budget = if thorough { 2000 } else { 200 };
        let stride = if deterministic_order { (r_total / read_budget).max(1) } else { (r_total / 60).max(1) };
        let mut r = 0;
        while r < r_total {
            plans.push(vec![Fault::FailRead(r)]);
            r += stride;
        }
        if stride > 1 {
            report.count("read_faults.sampled_snapshots");
        }
        if thorough {
            // a second fault in the restarted attempt
            let mut rng = rng_for(shard_seed, &[40, 2]);
            for k in 0..=g_total {
                let second = if rng.gen_bool(0.5) {
                    Fault::CancelAfter(rng.gen_range(0..=g_total.saturating_sub(k)))
                } else {
                    Fault::FailCommit(rng.gen_range(1..=g_total.saturating_sub(k).max(1)))
                };
                let first = if rng.gen_bool(0.5) { Fault::CancelAfter(k) } else { Fault::FailCommit(k.max(1)) };
                plans.push(vec![first, second]);
            }
        }
    }
    report.add("faults.planned", plans.len() as u64);

    let mut cancel_points_hit = BTreeSet::new();
    let mut commit_points_hit = BTreeSet::new();
    let mut groups_failed: BTreeSet<(String, usize)> = BTreeSet::new();
    let mut groups_cancelled: BTreeSet<(String, usize)> = BTreeSet::new();
    let mut truncated = false;
    for faults in &plans {
        if report.start.elapsed() > deadline {
            truncated = true;
            break;
        }
        let kind = fault_kind(faults);
        let sc = match run_scenario(&snap, faults, plan.backend, &next_dir(), Sabotage::None) {
            Ok(o) => o,
            Err(e) => {
                report.inconclusive(format!("shard {shard} faults {faults:?}: {e}"));
                continue;
            }
        };
        report.eval();
        report.count("faults.executed");
        report.count(&format!("faults.executed.{kind}"));
        let first = &sc.attempts[0];
        if first.hit.is_some() {
            report.count(&format!("faults.hit.{kind}"));
            match faults[0] {
                Fault::CancelAfter(k) if faults.len() == 1 => {
                    cancel_points_hit.insert(k);
                    groups_cancelled.extend(first.hit_progress.iter().cloned());
                }
                Fault::FailCommit(k) if faults.len() == 1 => {
                    commit_points_hit.insert(k);
                    groups_failed.extend(first.hit_progress.iter().cloned());
                }
                _ => {}
            }
        } else {
            report.count(&format!("faults.not_reached.{kind}"));
        }
        if first.result.is_err() {
            report.count("attempts.first_interrupted");
        } else {
            report.count("attempts.first_completed_despite_fault");
        }
        report.add("attempts.total", sc.attempts.len() as u64);
        for a in &sc.attempts {
            if let Err(e) = &a.result {
                let class = if e.contains("cancelled") {
                    "cancelled"
                } else if e.contains("injected commit failure") {
                    "injected_commit_failure"
                } else if e.contains("injected read failure") {
                    "injected_read_failure"
                } else if e.starts_with("panic") {
                    "panic"
                } else {
                    "other"
                };
                report.count(&format!("attempts.error.{class}"));
                if class == "other" || class == "panic" {
                    report.note(format!("attempt error: {e}"));
                }
            }
        }
        if is_nontrivial(&sc) {
            report.count("scenarios.interrupted_midway");
            let (mig, idx) = first.hit_progress.first().cloned().unwrap_or_else(|| {
                // read faults: keyed by the column that was being read
                let hit = first.hit.clone().unwrap_or_default();
                let col = hit
                    .split("column ")
                    .nth(1)
                    .and_then(|r| r.split(" on db").next())
                    .unwrap_or("")
                    .to_string();
                (col, 0)
            });
            let groups = expected.get(&mig).copied().unwrap_or(0);
            let pos = if idx == 0 { 0 } else if idx + 1 == groups { 2 } else { 1 };
            report.distinct(&(snap.enc.name(), snap.gs, snap.flavor, kind, mig, pos, plan.backend));
        }
        let j = Judge {
            report,
            selftest: false,
            replay: replay_of(faults),
        };
        judge(&j, &snap, &expected, Some(&base), &sc, kind);
    }
    if truncated {
        report.count("enumeration.truncated");
        report.inconclusive(format!("shard {shard}: fault enumeration stopped by the wall-clock budget"));
    } else if plans.len() > 1 {
        let all_cancel = (0..=g_total).all(|k| cancel_points_hit.contains(&k));
        let all_commit = (1..=g_total).all(|k| commit_points_hit.contains(&k));
        if all_cancel && all_commit {
            report.count("snapshots.all_fault_points_covered");
        } else {
            report.note(format!(
                "shard {shard}: not every fault point was reached: cancel {}/{}, commit {}/{}",
                cancel_points_hit.len(),
                g_total + 1,
                commit_points_hit.len(),
                g_total
            ));
        }
        if deterministic_order {
            // with inline sequential workers the k-th commit is always the same
            // group, so every group must have received its own faults
            report.add("coverage.groups_total", expected_total as u64);
            report.add("coverage.groups_with_commit_failure", groups_failed.len() as u64);
            report.add("coverage.groups_with_cancel_after", groups_cancelled.len() as u64);
        }
    }

    // ---- probes outside the property's fault model (observations only) ----
    if plans.len() > 1 && !truncated {
        let mut probes: Vec<(&str, Vec<Fault>)> = vec![("genesis_block_commit_failure", vec![Fault::FailFinalizeCommit(2)])];
        for i in (0..expected.len() as u64).step_by(3) {
            // interrupted just before the last group, then the i-th read of the
            // progress table fails while the workers of the restart are set up
            probes.push((
                "progress_read_failure_on_restart",
                vec![Fault::CancelAfter(g_total.saturating_sub(1)), Fault::FailProgressRead(i)],
            ));
        }
        for (name, faults) in probes {
            if let Ok(sc) = run_scenario(&snap, &faults, plan.backend, &next_dir(), Sabotage::None) {
                let same = sc.completed
                    && dump::diff_db(&base.on_dump, &sc.on_dump).is_empty()
                    && dump::diff_db(&base.off_dump, &sc.off_dump).is_empty();
                let outcome = if !sc.completed {
                    "not_resumable"
                } else if same {
                    "resumed_identical"
                } else {
                    "resumed_with_different_state"
                };
                report.count(&format!("probe.{name}.{outcome}"));
                if outcome != "resumed_identical" && args.extra.get("judge-probes").map(|v| v == "1").unwrap_or(false) {
                    // opt-in only: fault points outside the property's quantifier
                    report.violation(
                        format!("out_of_model_probe {name} {outcome}"),
                        describe_attempts(&sc),
                        replay_of(&faults),
                    );
                }
                if outcome != "resumed_identical" {
                    let tables: Vec<String> = dump::diff_db(&base.on_dump, &sc.on_dump)
                        .iter()
                        .map(|(t, d)| format!("on_chain.{t}({})", d.kinds()))
                        .chain(
                            dump::diff_db(&base.off_dump, &sc.off_dump)
                                .iter()
                                .map(|(t, d)| format!("off_chain.{t}({})", d.kinds())),
                        )
                        .collect();
                    for t in &tables {
                        report.count(&format!("probe.{name}.differs.{}", t.split('(').next().unwrap_or("")));
                    }
                    report.note(format!(
                        "probe (not judged) {name}: {outcome}; differing tables {tables:?}; {}",
                        describe_attempts(&sc)
                    ));
                }
            }
        }
    }
    let _ = std::fs::remove_dir_all(&dir);
}

fn parse_fault(s: &str) -> Option<Fault> {
    let (k, v) = s.split_once(':').unwrap_or((s, "0"));
    let n: u64 = v.parse().ok()?;
    Some(match k {
        "none" => Fault::None,
        "cancel_after" => Fault::CancelAfter(n),
        "fail_commit" => Fault::FailCommit(n),
        "fail_read" => Fault::FailRead(n),
        "fail_progress_read" => Fault::FailProgressRead(n),
        "fail_finalize_commit" => Fault::FailFinalizeCommit(n),
        _ => return None,
    })
}

/// returns (rule, assumptions, exhaustive)
pub fn run(args: &Args, report: &Report) -> (String, Vec<&'static str>, bool) {
    let selftest: Option<u64> = args.extra.get("selftest").and_then(|s| s.parse().ok());
    let rule = "per shard one generated multi-table snapshot (group size 1/2/3/7; parquet with all 19 exported \
        tables, or json; every table < 10 groups = inline sequential workers, or several tables >= 10 groups = \
        racing workers on the blocking pool); baseline import gives G group commits and R point reads; fault \
        plans = cancel right after commit k for every k in 0..=G, failure of commit k for every k in 1..=G, \
        failure of storage read r (all r when R is small, else strided); a scenario is distinct/non-trivial \
        when the first attempt was really interrupted after >= 1 committed group and a later attempt committed \
        the rest, keyed by (encoding, group size, flavor, fault kind, migration hit, first/middle/last group)"
        .to_string();
    let assumptions = vec![
        "a restart is modelled as a new tokio runtime + new StateWatcher on the same storage after every worker of the previous attempt has ended (process death)",
        "fault points are the commits and point reads seen by a wrapper around the databases' data source; failures inside the snapshot reader (file I/O) are not injected",
        "read failures of the progress table itself are not injected (ImportTask::new treats them as 'no progress', which is a silent wrong start rather than an interruption)",
        "faults after the last group commit (removal of the progress tables, commit of the genesis block) are outside the property and not injected",
        "exhaustive refers to commit/cancel fault points k of the generated snapshots, not to all snapshots",
    ];

    if let Some(r) = read_replay(args) {
        let seed = r.get("seed").and_then(|v| v.as_u64()).unwrap_or(args.seed);
        let shard = r.get("shard").and_then(|v| v.as_u64()).unwrap_or(0) as usize;
        let faults: Vec<Fault> = r
            .get("faults")
            .and_then(|v| v.as_array())
            .map(|a| a.iter().filter_map(|s| s.as_str().and_then(parse_fault)).collect())
            .unwrap_or_default();
        run_shard(report, args, shard, seed, selftest, Some(faults), Duration::from_secs(600));
        return (rule, assumptions, false);
    }

    let shards = args.by_tier(16usize, 48usize);
    let deadline = Duration::from_secs(args.by_tier(100, 900));
    {
        let report2 = report.clone();
        let args2 = args.clone();
        run_shards(report, args, shards, move |shard, seed| {
            run_shard(&report2, &args2, shard, seed, selftest, None, deadline);
        });
    }
    let mut exhaustive = false;
    if selftest.is_none() {
        let n = shards as u64;
        report.require("snapshots", n);
        report.require("snapshots.all_fault_points_covered", n);
        report.require("snapshots.flavor.Parallel", n / 8);
        report.require("snapshots.enc.json", n / 8);
        report.require("faults.hit.cancel", n * 30);
        report.require("faults.hit.commit_failure", n * 30);
        report.require("faults.hit.read_failure", n * 20);
        report.require("scenarios.interrupted_midway", n * 100);
        report.require("baseline.migrations_with_2plus_groups", n * 6);
        report.require("baseline.migrations_with_10plus_groups", n / 4);
        exhaustive = report.get("snapshots.all_fault_points_covered") == n
            && report.get("enumeration.truncated") == 0
            && report.get("faults.executed") == report.get("faults.planned");
        // every group of every sequential snapshot got its own commit failure
        report.info(
            "coverage",
            json!({
                "groups_total": report.get("coverage.groups_total"),
                "groups_with_commit_failure": report.get("coverage.groups_with_commit_failure"),
                "groups_with_cancel_after": report.get("coverage.groups_with_cancel_after"),
            }),
        );
        if report.get("coverage.groups_with_commit_failure") < report.get("coverage.groups_total") {
            exhaustive = false;
            report.inconclusive("not every (migration, group) received a commit failure");
        }
    } else {
        report.require("selftest.perturbed", 1);
    }
    (rule, assumptions, exhaustive)
}
