//! mon-genesis: runtime monitors for
//!   C39 snapshot export followed by regenesis reproduces the chain state
//!   C40 genesis import can be interrupted and resumed without changing the result

use vcommon::*;

mod c39;
mod c40;
mod dump;
mod faultdb;
mod model;
mod snapio;

fn main() {
    let args = Args::parse();
    install_quiet_panic_hook();
    let report = Report::new(&args.property);

    // Anything inside fuel-core that asks for a temporary directory (e.g. a
    // default rocksdb) must land under the scratch dir as well.
    let _ = std::fs::create_dir_all(&args.scratch);
    // SAFETY: no other thread exists yet.
    unsafe {
        std::env::set_var("TMPDIR", &args.scratch);
    }

    if let Err(e) = dump::column_lists_complete() {
        report.inconclusive(format!("harness column lists are out of date: {e}"));
        report.finish(&args, "exploration", "", false, &[]);
        return;
    }

    match args.property.as_str() {
        "C39" => {
            let (rule, assumptions) = c39::run(&args, &report);
            report.finish(&args, "exploration", &rule, false, &assumptions);
        }
        "C40" => {
            let (rule, assumptions, exhaustive) = c40::run(&args, &report);
            report.finish(&args, "fault_enumeration", &rule, exhaustive, &assumptions);
        }
        other => {
            report.inconclusive(format!("property {other} not implemented in this monitor"));
            report.finish(&args, "exploration", "", false, &[]);
        }
    }
}
