//! Seeded generator of chain states ("models") and direct population of a
//! `CombinedDatabase` with them. The model is the harness' own description of the
//! state; nothing here reuses fuel-core's export/import logic.

use fuel_core::{
    combined_database::CombinedDatabase,
    fuel_core_graphql_api::storage::{
        messages::SpentMessages,
        old::{
            OldFuelBlockConsensus,
            OldFuelBlocks,
            OldTransactions,
        },
        transactions::{
            OwnedTransactionIndexKey,
            OwnedTransactions,
            TransactionStatuses,
        },
    },
};
use fuel_core_chain_config::Randomize;
use fuel_core_storage::{
    ContractsAssetKey,
    ContractsStateKey,
    StorageAsMut,
    tables::{
        Coins,
        ContractsAssets,
        ContractsLatestUtxo,
        ContractsRawCode,
        ContractsState,
        FuelBlocks,
        Messages,
        ProcessedTransactions,
        SealedBlockConsensus,
        Transactions,
    },
    transactional::IntoTransaction,
};
use fuel_core_types::{
    blockchain::{
        block::{
            CompressedBlock,
            PartialFuelBlock,
        },
        consensus::{
            Consensus,
            poa::PoAConsensus,
        },
        header::{
            ApplicationHeader,
            ConsensusHeader,
            PartialBlockHeader,
        },
        primitives::{
            DaBlockHeight,
            Empty,
        },
    },
    entities::{
        coins::coin::{
            CompressedCoin,
            CompressedCoinV1,
        },
        contract::{
            ContractUtxoInfo,
            ContractUtxoInfoV1,
        },
        relayer::message::{
            Message,
            MessageV1,
        },
    },
    fuel_tx::{
        BlobId,
        ContractId,
        Receipt,
        Transaction,
        TxId,
        TxPointer,
        UniqueIdentifier,
        UtxoId,
    },
    fuel_types::{
        Address,
        AssetId,
        BlockHeight,
        Bytes32,
        ChainId,
        Nonce,
    },
    fuel_vm::{
        BlobData,
        Signature,
    },
    services::transaction_status::TransactionExecutionStatus,
    tai64::Tai64,
};
use std::sync::Arc;
use vcommon::{
    chance,
    pick,
    rand::{
        Rng,
        rngs::StdRng,
    },
    serde_json::{
        Value,
        json,
    },
};

#[derive(Clone, Copy, Debug, PartialEq, Eq, Hash)]
pub enum Flavor {
    /// no restriction on the number of groups per table (C39)
    Free,
    /// every snapshot table has < 10 groups: the importer runs every table inline,
    /// one after another (deterministic total order of commits)
    Sequential,
    /// at least two tables have >= 10 groups: those run on the blocking pool
    Parallel,
}

pub struct ContractM {
    pub id: ContractId,
    pub code: Vec<u8>,
    pub utxo: ContractUtxoInfo,
    pub slots: Vec<(Bytes32, Vec<u8>)>,
    pub balances: Vec<(AssetId, u64)>,
}

pub struct BlockM {
    pub height: u32,
    pub block: CompressedBlock,
    pub txs: Vec<(TxId, Transaction)>,
    pub consensus: Consensus,
}

pub struct Model {
    pub h0: u32,
    pub last_height: u32,
    pub last_da_height: u64,
    pub coins: Vec<(UtxoId, CompressedCoin)>,
    pub messages: Vec<Message>,
    pub blobs: Vec<(BlobId, Vec<u8>)>,
    pub contracts: Vec<ContractM>,
    pub blocks: Vec<BlockM>,
    pub extra_processed: Vec<TxId>,
    // off-chain history
    pub spent_messages: Vec<Nonce>,
    pub tx_statuses: Vec<(Bytes32, TransactionExecutionStatus)>,
    pub owned_txs: Vec<(OwnedTransactionIndexKey, Bytes32)>,
    pub old_blocks: Vec<(u32, CompressedBlock, Consensus)>,
    pub old_txs: Vec<(TxId, Transaction)>,
}

fn b32(rng: &mut StdRng) -> [u8; 32] {
    rng.r#gen()
}

fn bytes(rng: &mut StdRng, max: usize) -> Vec<u8> {
    // boundary lengths are over-represented: empty, 1, 32 and max
    let len = match rng.gen_range(0..10) {
        0 => 0,
        1 => 1,
        2 => 32.min(max),
        3 => max,
        _ => rng.gen_range(0..=max),
    };
    let mut v = vec![0u8; len];
    rng.fill(v.as_mut_slice());
    v
}

/// a count close to multiples of the group size (partial last group, exact
/// multiple, one more than a multiple, ...), at most `max`
pub fn count_near(rng: &mut StdRng, g: usize, max: usize) -> usize {
    let g = g.max(1);
    let cands = [
        0,
        1,
        g.saturating_sub(1),
        g,
        g + 1,
        (2 * g).saturating_sub(1),
        2 * g,
        2 * g + 1,
        3 * g + 1,
        4 * g,
        max,
        max.saturating_sub(1),
    ];
    (*pick(rng, &cands)).min(max)
}

fn amount(rng: &mut StdRng) -> u64 {
    match rng.gen_range(0..8) {
        0 => 0,
        1 => 1,
        2 => u64::MAX,
        3 => u64::MAX / 2 + 1,
        _ => rng.gen_range(0..1_000_000),
    }
}

fn consensus(rng: &mut StdRng) -> Consensus {
    let mut sig = [0u8; 64];
    rng.fill(&mut sig[..]);
    Consensus::PoA(PoAConsensus::new(Signature::from_bytes(sig)))
}

fn make_block(
    rng: &mut StdRng,
    height: u32,
    da_height: u64,
    n_txs: usize,
    chain_id: &ChainId,
    stf_version: u32,
    cp_version: u32,
    seen: &mut std::collections::HashSet<TxId>,
) -> (CompressedBlock, Vec<(TxId, Transaction)>) {
    // `Transaction::randomize` has a small range for scripts: keep ids unique
    let mut txs: Vec<Transaction> = Vec::new();
    let mut tries = 0;
    while txs.len() < n_txs && tries < 1000 {
        tries += 1;
        let t = Transaction::randomize(&mut *rng);
        if seen.insert(t.id(chain_id)) {
            txs.push(t);
        }
    }
    let header = PartialBlockHeader {
        application: ApplicationHeader::<Empty> {
            da_height: DaBlockHeight(da_height),
            consensus_parameters_version: cp_version,
            state_transition_bytecode_version: stf_version,
            generated: Empty,
        },
        consensus: ConsensusHeader::<Empty> {
            prev_root: b32(rng).into(),
            height: height.into(),
            time: Tai64(4611686018427387914 + height as u64),
            generated: Empty,
        },
    };
    let block = PartialFuelBlock::new(header, txs.clone())
        .generate(&[], Bytes32::from(b32(rng)))
        .expect("generated block is valid");
    let compressed = block.compress(chain_id);
    let with_ids = txs.into_iter().map(|t| (t.id(chain_id), t)).collect();
    (compressed, with_ids)
}

impl Model {
    /// `gs` is the group size the snapshot will be written/read with
    /// (`usize::MAX` = default); counts are chosen relative to it.
    pub fn generate(rng: &mut StdRng, gs: usize, flavor: Flavor) -> Model {
        let g = if gs == usize::MAX { 4 } else { gs.max(1) };
        // rows per table such that the table has at most 9 groups (Sequential)
        let cap = match flavor {
            Flavor::Sequential => 9 * g,
            Flavor::Free => (6 * g).max(24),
            Flavor::Parallel => (12 * g).max(24),
        };
        let chain_id = ChainId::default();

        let owners: Vec<Address> = (0..3).map(|_| Address::from(b32(rng))).collect();
        let assets: Vec<AssetId> = vec![AssetId::zeroed(), AssetId::from(b32(rng)), AssetId::from(b32(rng))];

        // ---- blocks ----
        let h0: u32 = if chance(rng, 35) { rng.gen_range(1..4) } else { 0 };
        // Merkle data rows ~ 2n, Merkle metadata rows n+1
        let max_blocks = match flavor {
            Flavor::Sequential => ((cap.saturating_sub(1)) / 2).clamp(1, 8),
            Flavor::Free => 8,
            Flavor::Parallel => 12,
        };
        let n_blocks = match flavor {
            Flavor::Parallel => rng.gen_range(6..=max_blocks),
            _ => rng.gen_range(1..=max_blocks),
        };
        let mut tx_budget = cap;
        let stf_version = rng.gen_range(0..5u32);
        let cp_version = rng.gen_range(0..5u32);
        let mut da = rng.gen_range(0..50u64);
        let mut blocks = Vec::new();
        let mut seen_txs = std::collections::HashSet::new();
        for i in 0..n_blocks {
            let height = h0 + i as u32;
            da += rng.gen_range(0..3u64);
            let n_txs = rng.gen_range(0..=3usize).min(tx_budget);
            tx_budget -= n_txs;
            let (block, txs) = make_block(rng, height, da, n_txs, &chain_id, stf_version, cp_version, &mut seen_txs);
            blocks.push(BlockM {
                height,
                block,
                txs,
                consensus: consensus(rng),
            });
        }
        let last_height = h0 + n_blocks as u32 - 1;
        let last_da_height = da;

        let height_leq_last = |rng: &mut StdRng| -> u32 {
            match rng.gen_range(0..4) {
                0 => last_height,
                1 => 0,
                _ => rng.gen_range(0..=last_height),
            }
        };

        // ---- coins ----
        let n_coins = match flavor {
            Flavor::Parallel => 10 * g + rng.gen_range(1..=3),
            _ => count_near(rng, g, cap),
        };
        let mut coins = Vec::new();
        for _ in 0..n_coins {
            let utxo = UtxoId::new(b32(rng).into(), rng.gen_range(0..4u16));
            let h = height_leq_last(rng);
            let coin = CompressedCoin::V1(CompressedCoinV1 {
                owner: *pick(rng, &owners),
                amount: amount(rng),
                asset_id: *pick(rng, &assets),
                tx_pointer: TxPointer::new(h.into(), rng.gen_range(0..3u16)),
            });
            coins.push((utxo, coin));
        }

        // ---- messages ----
        let n_msgs = count_near(rng, g, cap);
        let mut messages = Vec::new();
        for _ in 0..n_msgs {
            let da_height = match rng.gen_range(0..3) {
                0 => last_da_height,
                1 => 0,
                _ => rng.gen_range(0..=last_da_height),
            };
            messages.push(Message::V1(MessageV1 {
                sender: Address::from(b32(rng)),
                recipient: *pick(rng, &owners),
                nonce: Nonce::from(b32(rng)),
                amount: amount(rng),
                data: if chance(rng, 50) { vec![] } else { bytes(rng, 40) },
                da_height: DaBlockHeight(da_height),
            }));
        }

        // ---- blobs ----
        let n_blobs = count_near(rng, g, cap);
        let blobs = (0..n_blobs)
            .map(|_| (BlobId::from(b32(rng)), bytes(rng, 48)))
            .collect();

        // ---- contracts: 0 slots, 1 slot, many slots (spanning several groups) ----
        let mut slot_budget = cap;
        let mut bal_budget = cap;
        let many = match flavor {
            Flavor::Parallel => 10 * g + rng.gen_range(1..=4),
            _ => rng.gen_range(2 * g + 1..=3 * g + 2).min(cap.saturating_sub(1)),
        };
        let mut plan: Vec<(usize, usize)> = vec![
            (0, 0),
            (1, 1),
            (many, rng.gen_range(g + 1..=2 * g + 1).min(cap.saturating_sub(1))),
        ];
        let extra = rng.gen_range(0..=2);
        for _ in 0..extra {
            plan.push((count_near(rng, g, 3 * g + 1), count_near(rng, g, 2 * g + 1)));
        }
        let mut contracts = Vec::new();
        for (want_slots, want_bal) in plan {
            let n_slots = want_slots.min(slot_budget);
            slot_budget -= n_slots;
            let n_bal = want_bal.min(bal_budget);
            bal_budget -= n_bal;
            if contracts.len() >= cap {
                break;
            }
            let id = ContractId::from(b32(rng));
            let h = height_leq_last(rng);
            let utxo = ContractUtxoInfo::V1(ContractUtxoInfoV1 {
                utxo_id: UtxoId::new(b32(rng).into(), rng.gen_range(0..4u16)),
                tx_pointer: TxPointer::new(h.into(), rng.gen_range(0..3u16)),
            });
            let slots = (0..n_slots)
                .map(|_| (Bytes32::from(b32(rng)), bytes(rng, 40)))
                .collect();
            let mut balances: Vec<(AssetId, u64)> = Vec::new();
            for j in 0..n_bal {
                let asset = if j < assets.len() { assets[j] } else { AssetId::from(b32(rng)) };
                balances.push((asset, amount(rng)));
            }
            contracts.push(ContractM {
                id,
                code: bytes(rng, 64),
                utxo,
                slots,
                balances,
            });
        }

        // ---- processed transaction ids beyond the block transactions ----
        let in_blocks: usize = blocks.iter().map(|b| b.txs.len()).sum();
        let n_extra = count_near(rng, g, cap.saturating_sub(in_blocks));
        let extra_processed = (0..n_extra).map(|_| TxId::from(b32(rng))).collect();

        // ---- off-chain history tables ----
        let n_spent = count_near(rng, g, cap);
        let spent_messages = (0..n_spent).map(|_| Nonce::from(b32(rng))).collect();
        let n_status = count_near(rng, g, cap.min(2 * g + 1));
        let tx_statuses = (0..n_status)
            .map(|_| {
                let status = TransactionExecutionStatus::Success {
                    block_height: height_leq_last(rng).into(),
                    time: Tai64(rng.gen_range(0..u32::MAX as u64)),
                    result: None,
                    receipts: Arc::new(vec![Receipt::Return {
                        id: ContractId::from(b32(rng)),
                        val: rng.r#gen(),
                        pc: rng.r#gen(),
                        is: rng.r#gen(),
                    }]),
                    total_gas: rng.r#gen(),
                    total_fee: rng.r#gen(),
                };
                (Bytes32::from(b32(rng)), status)
            })
            .collect();
        let n_owned = count_near(rng, g, cap.min(2 * g + 1));
        let owned_txs = (0..n_owned)
            .map(|_| {
                (
                    OwnedTransactionIndexKey::new(
                        pick(rng, &owners),
                        BlockHeight::from(height_leq_last(rng)),
                        rng.gen_range(0..100u16),
                    ),
                    Bytes32::from(b32(rng)),
                )
            })
            .collect::<std::collections::BTreeMap<_, _>>()
            .into_iter()
            .collect();
        // a chain that already went through a regenesis has blocks below h0 in the
        // off-chain "old" tables
        let mut old_blocks = Vec::new();
        let mut old_txs = Vec::new();
        for h in 0..h0 {
            let n_txs = rng.gen_range(0..=2usize);
            let (block, txs) = make_block(rng, h, 0, n_txs, &chain_id, 0, 0, &mut seen_txs);
            old_blocks.push((h, block, consensus(rng)));
            old_txs.extend(txs);
        }

        Model {
            h0,
            last_height,
            last_da_height,
            coins,
            messages,
            blobs,
            contracts,
            blocks,
            extra_processed,
            spent_messages,
            tx_statuses,
            owned_txs,
            old_blocks,
            old_txs,
        }
    }

    pub fn n_state_rows(&self) -> usize {
        self.contracts.iter().map(|c| c.slots.len()).sum()
    }

    pub fn n_balance_rows(&self) -> usize {
        self.contracts.iter().map(|c| c.balances.len()).sum()
    }

    pub fn n_block_txs(&self) -> usize {
        self.blocks.iter().map(|b| b.txs.len()).sum()
    }

    /// Number of contracts whose storage slots are split over >= 2 groups when
    /// the `ContractsState` table (ordered by contract id, then slot key — the
    /// table's key order) is cut into groups of `gs` rows.
    pub fn contracts_spanning_groups(&self, gs: usize) -> (usize, usize) {
        let mut cs: Vec<&ContractM> = self.contracts.iter().collect();
        cs.sort_by_key(|c| c.id);
        let mut idx = 0usize;
        let mut spanning = 0usize;
        let mut max_groups = 0usize;
        for c in cs {
            if c.slots.is_empty() {
                continue;
            }
            let first = idx / gs;
            let last = (idx + c.slots.len() - 1) / gs;
            idx += c.slots.len();
            let n = last - first + 1;
            max_groups = max_groups.max(n);
            if n >= 2 {
                spanning += 1;
            }
        }
        (spanning, max_groups)
    }

    pub fn summary(&self) -> Value {
        json!({
            "h0": self.h0,
            "last_height": self.last_height,
            "last_da_height": self.last_da_height,
            "coins": self.coins.len(),
            "messages": self.messages.len(),
            "blobs": self.blobs.len(),
            "contracts": self.contracts.iter().map(|c| json!({
                "id": hex::encode(&c.id.as_ref()[..4]),
                "code_len": c.code.len(),
                "slots": c.slots.len(),
                "balances": c.balances.len(),
            })).collect::<Vec<_>>(),
            "blocks": self.blocks.len(),
            "block_txs": self.n_block_txs(),
            "extra_processed": self.extra_processed.len(),
            "spent_messages": self.spent_messages.len(),
            "tx_statuses": self.tx_statuses.len(),
            "owned_txs": self.owned_txs.len(),
            "old_blocks": self.old_blocks.len(),
            "old_txs": self.old_txs.len(),
        })
    }

    /// Write the model into the database tables directly (no executor involved).
    /// State first (commit without height), then one commit per block so that
    /// the regular database's height bookkeeping accepts it.
    pub fn populate(&self, db: &CombinedDatabase) -> anyhow::Result<()> {
        let mut tx = db.on_chain().clone().into_transaction();
        for (k, v) in &self.coins {
            tx.storage_as_mut::<Coins>().insert(k, v)?;
        }
        for m in &self.messages {
            tx.storage_as_mut::<Messages>().insert(m.nonce(), m)?;
        }
        for (id, payload) in &self.blobs {
            tx.storage_as_mut::<BlobData>().insert(id, payload.as_slice())?;
        }
        for c in &self.contracts {
            tx.storage_as_mut::<ContractsRawCode>()
                .insert(&c.id, c.code.as_slice())?;
            tx.storage_as_mut::<ContractsLatestUtxo>().insert(&c.id, &c.utxo)?;
            for (k, v) in &c.slots {
                tx.storage_as_mut::<ContractsState>()
                    .insert(&ContractsStateKey::new(&c.id, k), v.as_slice())?;
            }
            for (a, amount) in &c.balances {
                tx.storage_as_mut::<ContractsAssets>()
                    .insert(&ContractsAssetKey::new(&c.id, a), amount)?;
            }
        }
        for id in &self.extra_processed {
            tx.storage_as_mut::<ProcessedTransactions>().insert(id, &())?;
        }
        tx.commit()?;

        for b in &self.blocks {
            let mut tx = db.on_chain().clone().into_transaction();
            let height = BlockHeight::from(b.height);
            tx.storage_as_mut::<FuelBlocks>().insert(&height, &b.block)?;
            tx.storage_as_mut::<SealedBlockConsensus>()
                .insert(&height, &b.consensus)?;
            for (id, t) in &b.txs {
                tx.storage_as_mut::<Transactions>().insert(id, t)?;
                tx.storage_as_mut::<ProcessedTransactions>().insert(id, &())?;
            }
            tx.commit()?;
        }

        let mut tx = db.off_chain().clone().into_transaction();
        for n in &self.spent_messages {
            tx.storage_as_mut::<SpentMessages>().insert(n, &())?;
        }
        for (k, v) in &self.tx_statuses {
            tx.storage_as_mut::<TransactionStatuses>().insert(k, v)?;
        }
        for (k, v) in &self.owned_txs {
            tx.storage_as_mut::<OwnedTransactions>().insert(k, v)?;
        }
        for (h, block, cons) in &self.old_blocks {
            let height = BlockHeight::from(*h);
            tx.storage_as_mut::<OldFuelBlocks>().insert(&height, block)?;
            tx.storage_as_mut::<OldFuelBlockConsensus>().insert(&height, cons)?;
        }
        for (id, t) in &self.old_txs {
            tx.storage_as_mut::<OldTransactions>().insert(id, t)?;
        }
        tx.commit()?;
        Ok(())
    }
}
