//! C39 — snapshot export followed by regenesis reproduces the chain state.
//!
//! case = (generated chain state, encoding, group size, source/target backend)
//!   1. populate a source `CombinedDatabase` directly from the model,
//!   2. `Exporter::write_full_snapshot` into a scratch directory,
//!   3. `execute_and_commit_genesis_block` into a fresh `CombinedDatabase`,
//!   4. compare table by table (raw column contents) + chain height / roots.

use crate::{
    dump::{
        self,
        ColDump,
        DbDump,
    },
    model::{
        Flavor,
        Model,
    },
    snapio::{
        self,
        Backend,
        Enc,
    },
};
use fuel_core::combined_database::CombinedDatabase;
use fuel_core_storage::{
    StorageAsMut,
    StorageAsRef,
    iter::IteratorOverTable,
    tables::{
        Coins,
        ContractsState,
        FuelBlocks,
        merkle::{
            DenseMetadataKey,
            FuelBlockMerkleMetadata,
        },
    },
    transactional::{
        AtomicView,
        HistoricalView,
        IntoTransaction,
    },
};
use fuel_core_types::{
    entities::coins::coin::CompressedCoin,
    fuel_merkle::binary::in_memory::MerkleTree,
    fuel_types::BlockHeight,
};
use std::collections::BTreeMap;
use vcommon::{
    Args,
    Report,
    catch,
    chance,
    pick,
    read_replay,
    rng_for,
    run_shards,
    serde_json::{
        Value,
        json,
    },
};

const GROUP_SIZES: [usize; 5] = [1, 2, 3, 7, usize::MAX];

/// on-chain columns that must be identical after regenesis, in every encoding
const EQUAL_COLUMNS: [&str; 7] = [
    "Coins",
    "Messages",
    "ContractsRawCode",
    "ContractsAssets",
    "ContractsState",
    "ContractsLatestUtxo",
    "Blobs",
];

#[derive(Clone, Debug)]
struct CaseParams {
    enc: Enc,
    gs: usize,
    src: Backend,
    dst: Backend,
}

fn case_params(shard_seed: u64, iter: u64, replay: Option<&Value>) -> CaseParams {
    let mut rng = rng_for(shard_seed, &[iter, 1]);
    let mut p = CaseParams {
        gs: *pick(&mut rng, &GROUP_SIZES),
        enc: if chance(&mut rng, 40) {
            Enc::Json
        } else {
            Enc::Parquet(*pick(&mut rng, &[0u8, 1, 3]))
        },
        src: if chance(&mut rng, 6) { Backend::Rocks } else { Backend::Memory },
        dst: if chance(&mut rng, 6) { Backend::Rocks } else { Backend::Memory },
    };
    if let Some(r) = replay {
        // the recorded parameters win (they are what was actually executed)
        if let Some(gs) = r.get("group_size").and_then(|v| v.as_str()) {
            p.gs = if gs == "default" { usize::MAX } else { gs.parse().unwrap_or(p.gs) };
        }
    }
    p
}

struct Ctx<'a> {
    report: &'a Report,
    enc: Enc,
    replay: Value,
    selftest: bool,
}

impl Ctx<'_> {
    fn violation(&self, sig: String, detail: String) {
        let sig = if self.selftest { format!("selftest:{sig}") } else { sig };
        self.report.violation(sig, detail, self.replay.clone());
    }
}

fn block_ids_root(ids: &[[u8; 32]]) -> [u8; 32] {
    let mut tree = MerkleTree::new();
    for id in ids {
        tree.push(id);
    }
    tree.root()
}

fn merkle_metadata(db: &CombinedDatabase) -> Result<(BTreeMap<u32, (Vec<u8>, u64)>, Option<(Vec<u8>, u64)>), String> {
    let mut primary = BTreeMap::new();
    let mut latest = None;
    for item in db.on_chain().iter_all::<FuelBlockMerkleMetadata>(None) {
        let (k, v) = item.map_err(|e| format!("FuelBlockMerkleMetadata iteration: {e}"))?;
        let val = (v.root().to_vec(), v.version());
        match k {
            DenseMetadataKey::Primary(h) => {
                primary.insert(u32::from(h), val);
            }
            DenseMetadataKey::Latest => latest = Some(val),
        }
    }
    Ok((primary, latest))
}

/// harness-side perturbations of the *observed* target database (oracle self-test)
fn sabotage_target(db: &CombinedDatabase, model: &Model, variant: u64) -> Result<String, String> {
    let mut tx = db.on_chain().clone().into_genesis().unwrap_or_else(|d| d).into_transaction();
    let what;
    match variant % 3 {
        0 => {
            // lose one storage slot of the contract with the most slots
            let c = model
                .contracts
                .iter()
                .max_by_key(|c| c.slots.len())
                .ok_or("no contract")?;
            let (k, _) = c.slots.last().ok_or("no slot")?;
            tx.storage_as_mut::<ContractsState>()
                .remove(&fuel_core_storage::ContractsStateKey::new(&c.id, k))
                .map_err(|e| e.to_string())?;
            what = "removed one ContractsState slot".to_string();
        }
        1 => {
            let (utxo, coin) = model.coins.first().ok_or("no coin")?;
            let mut coin: CompressedCoin = coin.clone();
            let bumped = (*coin.amount()).wrapping_add(1);
            coin.set_amount(bumped);
            tx.storage_as_mut::<Coins>()
                .insert(utxo, &coin)
                .map_err(|e| e.to_string())?;
            what = "changed one coin amount".to_string();
        }
        _ => {
            let h = BlockHeight::from(model.last_height);
            tx.storage_as_mut::<FuelBlockMerkleMetadata>()
                .remove(&DenseMetadataKey::Primary(h))
                .map_err(|e| e.to_string())?;
            what = "removed the block Merkle metadata of the last old block".to_string();
        }
    }
    tx.commit().map_err(|e| e.to_string())?;
    Ok(what)
}

#[allow(clippy::too_many_arguments)]
fn compare(
    ctx: &Ctx,
    model: &Model,
    src: &CombinedDatabase,
    dst: &CombinedDatabase,
    src_dump: &DbDump,
) -> Result<(), String> {
    let report = ctx.report;
    let enc = ctx.enc.name();
    let dst_dump = dump::dump_on_chain(dst.on_chain())?;
    let empty = ColDump::new();

    // ---- state tables ----
    let mut columns: Vec<&str> = EQUAL_COLUMNS.to_vec();
    match ctx.enc {
        Enc::Parquet(_) => columns.push("ProcessedTransactions"),
        Enc::Json => {
            // The JSON state config has no place for processed transaction ids
            // and block Merkle data ("Do not include these for now" in
            // chain-config/src/config/state.rs): outside the oracle's domain.
            report.count("excluded.json.ProcessedTransactions");
            report.count("excluded.json.FuelBlockMerkleData");
            report.count("excluded.json.FuelBlockMerkleMetadata");
        }
    }
    for name in columns {
        let s = src_dump.get(name).unwrap_or(&empty);
        let d = dst_dump.get(name).unwrap_or(&empty);
        report.count("tables.compared");
        report.add(&format!("rows.compared.{name}"), s.len() as u64);
        let diff = dump::diff_col(s, d, false);
        if !diff.is_empty() {
            ctx.violation(
                format!("table_mismatch table={name} kind={} enc={enc}", diff.kinds()),
                format!(
                    "table {name}: source has {} rows, regenesis target has {}; {}",
                    s.len(),
                    d.len(),
                    diff.describe()
                ),
            );
        }
    }

    // ---- chain height ----
    let expected_height = model.last_height + 1;
    let dst_height = HistoricalView::latest_height(dst.on_chain()).map(u32::from);
    report.count("height.compared");
    if dst_height != Some(expected_height) {
        ctx.violation(
            format!("chain_height_mismatch enc={enc}"),
            format!(
                "source chain height {}, so the regenesis block must be at {expected_height}; target database height is {dst_height:?}",
                model.last_height
            ),
        );
        return Ok(());
    }
    let src_last = BlockHeight::from(model.last_height);
    let src_root = src
        .on_chain()
        .storage::<FuelBlocks>()
        .root(&src_last)
        .map_err(|e| format!("source block root: {e}"))?;
    let src_ids: Vec<[u8; 32]> = model.blocks.iter().map(|b| b.block.id().into()).collect();
    if block_ids_root(&src_ids) != src_root {
        return Err("harness: source block Merkle root differs from the independent root over the inserted block ids".into());
    }
    let genesis = dst
        .on_chain()
        .latest_view()
        .and_then(|v| v.latest_block())
        .map_err(|e| format!("target latest block: {e}"))?;
    if u32::from(*genesis.header().height()) != expected_height {
        ctx.violation(
            format!("chain_height_mismatch enc={enc}"),
            format!(
                "latest block of the target is at height {}, expected {expected_height}",
                genesis.header().height()
            ),
        );
    }
    report.count("prev_root.compared");
    if genesis.header().prev_root().as_slice() != src_root.as_slice() {
        ctx.violation(
            format!("blocks_root_not_carried_over enc={enc}"),
            format!(
                "regenesis block prev_root {} != Merkle root of the source chain's blocks {}",
                hex::encode(genesis.header().prev_root().as_slice()),
                hex::encode(src_root)
            ),
        );
    }
    if genesis.header().da_height().0 != model.last_da_height {
        ctx.violation(
            format!("da_height_mismatch enc={enc}"),
            format!(
                "regenesis block da_height {} != da height of the last source block {}",
                genesis.header().da_height().0,
                model.last_da_height
            ),
        );
    }

    // ---- block Merkle data ----
    if let Enc::Parquet(_) = ctx.enc {
        let s = src_dump.get("FuelBlockMerkleData").unwrap_or(&empty);
        let d = dst_dump.get("FuelBlockMerkleData").unwrap_or(&empty);
        report.count("tables.compared");
        report.add("rows.compared.FuelBlockMerkleData", s.len() as u64);
        // the regenesis block appends a leaf: extra nodes are expected, the old
        // nodes must be there unchanged
        let diff = dump::diff_col(s, d, true);
        if !diff.is_empty() {
            ctx.violation(
                format!("table_mismatch table=FuelBlockMerkleData kind={} enc={enc}", diff.kinds()),
                format!(
                    "block Merkle nodes of the source chain ({} rows) are not all present/unchanged in the target ({} rows); {}",
                    s.len(),
                    d.len(),
                    diff.describe()
                ),
            );
        }
        let (s_primary, _s_latest) = merkle_metadata(src)?;
        let (d_primary, d_latest) = merkle_metadata(dst)?;
        report.count("tables.compared");
        report.add("rows.compared.FuelBlockMerkleMetadata", s_primary.len() as u64);
        for (h, v) in &s_primary {
            if d_primary.get(h) != Some(v) {
                ctx.violation(
                    format!("table_mismatch table=FuelBlockMerkleMetadata kind={} enc={enc}", if d_primary.contains_key(h) { "changed" } else { "missing" }),
                    format!(
                        "block Merkle metadata at height {h}: source (root {}, version {}), target {:?}",
                        hex::encode(&v.0),
                        v.1,
                        d_primary.get(h).map(|x| (hex::encode(&x.0), x.1))
                    ),
                );
                break;
            }
        }
        let extra: Vec<&u32> = d_primary.keys().filter(|h| !s_primary.contains_key(h) && **h != expected_height).collect();
        if !extra.is_empty() {
            ctx.violation(
                format!("table_mismatch table=FuelBlockMerkleMetadata kind=extra enc={enc}"),
                format!("target has block Merkle metadata at heights {extra:?} that the source chain does not have"),
            );
        }
        // the carried-over tree must continue: root after the regenesis block ==
        // independent root over (source block ids ++ regenesis block id)
        let mut ids = src_ids.clone();
        ids.push(genesis.id().into());
        let want = block_ids_root(&ids);
        let got = dst
            .on_chain()
            .storage::<FuelBlocks>()
            .root(&BlockHeight::from(expected_height))
            .map_err(|e| format!("target block root: {e}"))?;
        report.count("merkle_root.compared");
        if got != want || d_latest.as_ref().map(|l| l.0.as_slice()) != Some(&want[..]) {
            ctx.violation(
                format!("merkle_root_mismatch enc={enc}"),
                format!(
                    "block Merkle root at height {expected_height}: target {} (latest metadata {:?}), independent root over the {} source blocks + regenesis block {}",
                    hex::encode(got),
                    d_latest.map(|l| hex::encode(l.0)),
                    src_ids.len(),
                    hex::encode(want)
                ),
            );
        }
    }
    Ok(())
}

fn run_case(report: &Report, args: &Args, shard: usize, shard_seed: u64, iter: u64, selftest: Option<u64>, replay_in: Option<&Value>) {
    let p = case_params(shard_seed, iter, replay_in);
    let mut rng = rng_for(shard_seed, &[iter, 2]);
    let model = Model::generate(&mut rng, p.gs, Flavor::Free);
    let replay = json!({
        "seed": shard_seed, "shard": shard, "iteration": iter,
        "encoding": format!("{:?}", p.enc), "group_size": snapio::gs_name(p.gs),
        "source_backend": p.src.name(), "target_backend": p.dst.name(),
        "state": model.summary(),
    });
    let ctx = Ctx {
        report,
        enc: p.enc,
        replay: replay.clone(),
        selftest: selftest.is_some(),
    };
    let dir = args.scratch.join(format!("c39-{shard}-{iter}"));
    let _ = std::fs::remove_dir_all(&dir);
    if let Err(e) = std::fs::create_dir_all(&dir) {
        report.inconclusive(format!("cannot create scratch dir {dir:?}: {e}"));
        return;
    }
    report.eval();
    report.count("cases");
    report.count(&format!("cases.enc.{}", p.enc.name()));
    report.count(&format!("cases.group_size.{}", snapio::gs_name(p.gs)));
    report.count(&format!("cases.source.{}", p.src.name()));
    report.count(&format!("cases.target.{}", p.dst.name()));

    let outcome: Result<Result<(), String>, String> = catch(|| {
        let rt = snapio::new_rt();
        let src = snapio::new_db(p.src, &dir.join("src")).map_err(|e| format!("harness: source db: {e}"))?;
        model.populate(&src).map_err(|e| format!("harness: populate: {e}"))?;
        let src_dump = dump::dump_on_chain(src.on_chain()).map_err(|e| format!("harness: {e}"))?;

        // model vs source sanity (the harness wrote what it thinks it wrote)
        let expect_rows = [
            ("Coins", model.coins.len()),
            ("Messages", model.messages.len()),
            ("Blobs", model.blobs.len()),
            ("ContractsRawCode", model.contracts.len()),
            ("ContractsState", model.n_state_rows()),
            ("ContractsAssets", model.n_balance_rows()),
            ("FuelBlocks", model.blocks.len()),
            ("ProcessedTransactions", model.n_block_txs() + model.extra_processed.len()),
        ];
        for (name, n) in expect_rows {
            let got = src_dump.get(name).map(|c| c.len()).unwrap_or(0);
            if got != n {
                return Err(format!("harness: source table {name} has {got} rows, model has {n}"));
            }
        }

        // coverage facts about the case
        let mut multi_group_tables = 0;
        for (_, col) in src_dump.iter() {
            if p.gs != usize::MAX && col.len() > p.gs {
                multi_group_tables += 1;
            }
        }
        let (spanning, max_groups) = if p.gs == usize::MAX { (0, 1) } else { model.contracts_spanning_groups(p.gs) };
        if multi_group_tables > 0 {
            report.count("cases.with_multi_group_table");
        }
        if spanning > 0 {
            report.count("cases.contract_storage_spans_groups");
        }
        if max_groups >= 3 {
            report.count("cases.contract_storage_spans_3plus_groups");
        }
        if src_dump.values().any(|c| p.gs != usize::MAX && c.len() >= 10 * p.gs) {
            report.count("cases.with_table_of_10plus_groups");
        }
        if model.contracts.iter().any(|c| c.slots.is_empty()) {
            report.count("cases.with_contract_without_slots");
        }
        if multi_group_tables > 0 {
            // distinct non-trivial case shape
            let shape: Vec<(String, usize)> = src_dump
                .iter()
                .map(|(n, c)| (n.clone(), if p.gs == usize::MAX { 1 } else { c.len().div_ceil(p.gs).min(12) }))
                .collect();
            report.distinct(&(p.enc.name(), p.gs, p.src, p.dst, shape, spanning.min(3), max_groups.min(4)));
        }

        // ---- export ----
        let snap_dir = dir.join("snapshot");
        let metadata = match catch(|| snapio::export(&rt, &src, &snap_dir, p.enc, p.gs)) {
            Ok(Ok(m)) => m,
            Ok(Err(e)) => {
                ctx.violation(
                    format!("regenesis_failed stage=export enc={}", p.enc.name()),
                    format!("Exporter::write_full_snapshot failed for a valid state: {e:#}"),
                );
                return Ok(());
            }
            Err(panic) => {
                ctx.violation(
                    format!("regenesis_failed stage=export_panic enc={}", p.enc.name()),
                    format!("Exporter::write_full_snapshot panicked: {panic}"),
                );
                return Ok(());
            }
        };
        report.count("export.ok");

        // ---- regenesis ----
        let dst = snapio::new_db(p.dst, &dir.join("dst")).map_err(|e| format!("harness: target db: {e}"))?;
        let config = match snapio::config_for(metadata, p.gs) {
            Ok(c) => c,
            Err(e) => {
                ctx.violation(
                    format!("regenesis_failed stage=open_snapshot enc={}", p.enc.name()),
                    format!("the exported snapshot cannot be opened: {e:#}"),
                );
                return Ok(());
            }
        };
        match catch(|| snapio::import_and_commit(&rt, &config, &dst)) {
            Ok(Ok(())) => {}
            Ok(Err(e)) => {
                ctx.violation(
                    format!("regenesis_failed stage=import enc={}", p.enc.name()),
                    format!("genesis import of the exported snapshot failed: {e:#}"),
                );
                return Ok(());
            }
            Err(panic) => {
                ctx.violation(
                    format!("regenesis_failed stage=import_panic enc={}", p.enc.name()),
                    format!("genesis import of the exported snapshot panicked: {panic}"),
                );
                return Ok(());
            }
        }
        report.count("import.ok");

        if let Some(variant) = selftest {
            match sabotage_target(&dst, &model, variant) {
                Ok(what) => report.note(format!("selftest: {what}")),
                Err(e) => {
                    // this state has nothing to perturb in that way
                    report.count("selftest.not_applicable");
                    report.note(format!("selftest variant not applicable: {e}"));
                    return Ok(());
                }
            }
            report.count("selftest.perturbed");
        }

        compare(&ctx, &model, &src, &dst, &src_dump)?;

        // the history tables are not part of the property; what happened to
        // them is recorded as an observation only
        if let Enc::Parquet(_) = p.enc {
            let off = dump::dump_off_chain(dst.off_chain())?;
            let old = off.get("OldFuelBlocks").map(|c| c.len()).unwrap_or(0);
            if old == model.blocks.len() + model.old_blocks.len() {
                report.count("observed.history.old_blocks_complete");
            } else {
                report.count("observed.history.old_blocks_incomplete");
            }
        }
        if report.wants_sample() {
            report.sample(replay.clone());
        }
        src.shutdown();
        dst.shutdown();
        Ok(())
    });
    match outcome {
        Ok(Ok(())) => {}
        Ok(Err(e)) => report.inconclusive(format!("case shard={shard} iter={iter}: {e}")),
        Err(panic) => report.inconclusive(format!("case shard={shard} iter={iter}: harness panic: {panic}")),
    }
    let _ = std::fs::remove_dir_all(&dir);
}

pub fn run(args: &Args, report: &Report) -> (String, Vec<&'static str>) {
    let selftest: Option<u64> = args.extra.get("selftest").and_then(|s| s.parse().ok());
    let rule = "case = seeded chain state written directly into the source tables (coins, messages, blobs, \
        contracts with 0/1/many storage slots, balances, code, latest utxo, processed tx ids, blocks with \
        their Merkle data; row counts chosen around multiples of the group size) x encoding {json, parquet} x \
        group size {1,2,3,7,default} x source/target backend {memory, rocksdb}; a case is distinct/non-trivial \
        when at least one exported table has >= 2 groups, keyed by (encoding, group size, backends, groups per \
        table, number of contracts whose storage spans several groups)"
        .to_string();
    let assumptions = vec![
        "source states are populated directly through the storage tables, not produced by block execution",
        "JSON snapshots do not carry processed transaction ids and block Merkle data by design; those tables are compared for parquet only",
        "chain height: the regenesis block is expected at source height + 1 with prev_root = source blocks root",
        "byte equality of raw column contents is used as table equality",
    ];

    if let Some(r) = read_replay(args) {
        let seed = r.get("seed").and_then(|v| v.as_u64()).unwrap_or(args.seed);
        let shard = r.get("shard").and_then(|v| v.as_u64()).unwrap_or(0) as usize;
        let iter = r.get("iteration").and_then(|v| v.as_u64()).unwrap_or(0);
        run_case(report, args, shard, seed, iter, selftest, Some(&r));
        return (rule, assumptions);
    }

    let shards = args.by_tier(32usize, 128usize);
    let iters = args.by_tier(14u64, 80u64);
    {
        let report = report.clone();
        let args2 = args.clone();
        run_shards(&report.clone(), args, shards, move |shard, seed| {
            for iter in 0..iters {
                run_case(&report, &args2, shard, seed, iter, selftest, None);
            }
        });
    }
    if selftest.is_none() {
        let n = (shards as u64) * iters;
        report.require("cases", n);
        report.require("import.ok", n * 9 / 10);
        report.require("cases.enc.json", n / 5);
        report.require("cases.enc.parquet", n / 3);
        for gs in GROUP_SIZES {
            report.require(&format!("cases.group_size.{}", snapio::gs_name(gs)), n / 12);
        }
        report.require("cases.contract_storage_spans_groups", n / 2);
        report.require("cases.contract_storage_spans_3plus_groups", n * 2 / 5);
        report.require("cases.with_table_of_10plus_groups", n / 8);
        report.require("cases.with_contract_without_slots", n / 2);
        report.require("rows.compared.ContractsState", n * 5);
        report.require("rows.compared.ProcessedTransactions", n);
        report.require("rows.compared.FuelBlockMerkleData", n);
        report.require("merkle_root.compared", n / 3);
        report.require("cases.target.rocksdb", 5);
        report.require("cases.source.rocksdb", 5);
    } else {
        report.require("selftest.perturbed", 1);
    }
    (rule, assumptions)
}
