//! Glue around the real export / import entry points of fuel-core.

use fuel_core::{
    combined_database::CombinedDatabase,
    database::{
        Database,
        database_description::{
            off_chain::OffChain,
            on_chain::OnChain,
        },
    },
    service::{
        Config,
        genesis::{
            Exporter,
            execute_and_commit_genesis_block,
        },
    },
    state::{
        historical_rocksdb::StateRewindPolicy,
        rocks_db::DatabaseConfig,
    },
};
use fuel_core_chain_config::{
    ChainConfig,
    SnapshotMetadata,
    SnapshotReader,
    SnapshotWriter,
    ZstdCompressionLevel,
};
use fuel_core_services::StateWatcher;
use std::path::Path;

#[derive(Clone, Copy, Debug, PartialEq, Eq, Hash)]
pub enum Enc {
    Json,
    /// zstd level 0..=22
    Parquet(u8),
}

impl Enc {
    pub fn name(&self) -> &'static str {
        match self {
            Enc::Json => "json",
            Enc::Parquet(_) => "parquet",
        }
    }
}

#[derive(Clone, Copy, Debug, PartialEq, Eq, Hash)]
pub enum Backend {
    Memory,
    Rocks,
}

impl Backend {
    pub fn name(&self) -> &'static str {
        match self {
            Backend::Memory => "memory",
            Backend::Rocks => "rocksdb",
        }
    }
}

pub fn gs_name(gs: usize) -> String {
    if gs == usize::MAX {
        "default".into()
    } else {
        gs.to_string()
    }
}

pub fn new_rt() -> tokio::runtime::Runtime {
    tokio::runtime::Builder::new_current_thread()
        .enable_all()
        .max_blocking_threads(32)
        .build()
        .expect("tokio runtime")
}

pub fn new_db(backend: Backend, dir: &Path) -> anyhow::Result<CombinedDatabase> {
    match backend {
        Backend::Memory => Ok(CombinedDatabase::in_memory()),
        Backend::Rocks => {
            std::fs::create_dir_all(dir)?;
            let on_chain = Database::<OnChain>::open_rocksdb(
                dir,
                StateRewindPolicy::NoRewind,
                DatabaseConfig::config_for_tests(),
            )?;
            let off_chain = Database::<OffChain>::open_rocksdb(
                dir,
                StateRewindPolicy::NoRewind,
                DatabaseConfig::config_for_tests(),
            )?;
            Ok(CombinedDatabase::new(
                on_chain,
                off_chain,
                Database::in_memory(),
                Database::in_memory(),
                Database::in_memory(),
                Database::in_memory(),
            ))
        }
    }
}

/// `Exporter::write_full_snapshot` into `dir`
pub fn export(
    rt: &tokio::runtime::Runtime,
    db: &CombinedDatabase,
    dir: &Path,
    enc: Enc,
    gs: usize,
) -> anyhow::Result<SnapshotMetadata> {
    let d = dir.to_path_buf();
    let writer = move || -> anyhow::Result<SnapshotWriter> {
        match enc {
            Enc::Json => Ok(SnapshotWriter::json(d.clone())),
            Enc::Parquet(level) => {
                SnapshotWriter::parquet(d.clone(), ZstdCompressionLevel::try_from(level)?)
            }
        }
    };
    let exporter = Exporter::new(
        db.clone(),
        ChainConfig::local_testnet(),
        writer,
        gs,
        StateWatcher::default(),
    );
    rt.block_on(exporter.write_full_snapshot())?;
    SnapshotMetadata::read(dir)
}

/// the node configuration a regenesis from `metadata` would start with
pub fn config_for(metadata: SnapshotMetadata, json_group_size: usize) -> anyhow::Result<Config> {
    let reader = SnapshotReader::open_w_config(metadata, json_group_size)?;
    Ok(Config::local_node_with_reader(reader))
}

pub fn import_and_commit(
    rt: &tokio::runtime::Runtime,
    config: &Config,
    db: &CombinedDatabase,
) -> anyhow::Result<()> {
    rt.block_on(execute_and_commit_genesis_block(config, db))
}
