//! Raw (column, key, value) dumps of the on-chain / off-chain databases and diffs.

use fuel_core::{
    database::{
        Database,
        database_description::{
            DatabaseDescription,
            DatabaseMetadata,
            off_chain::OffChain,
            on_chain::OnChain,
        },
    },
    fuel_core_graphql_api::storage::Column as OffCol,
};
use fuel_core_storage::{
    column::Column as OnCol,
    iter::{
        IterDirection,
        IterableStore,
    },
    kv_store::StorageColumn,
};
use std::collections::BTreeMap;

pub type ColDump = BTreeMap<Vec<u8>, Vec<u8>>;
/// column name -> entries
pub type DbDump = BTreeMap<String, ColDump>;

#[allow(deprecated)]
pub const ON_CHAIN_COLUMNS: [OnCol; 22] = [
    OnCol::Metadata,
    OnCol::ContractsRawCode,
    OnCol::ContractsState,
    OnCol::ContractsLatestUtxo,
    OnCol::ContractsAssets,
    OnCol::Coins,
    OnCol::Transactions,
    OnCol::FuelBlocks,
    OnCol::FuelBlockMerkleData,
    OnCol::FuelBlockMerkleMetadata,
    OnCol::ContractsAssetsMerkleData,
    OnCol::ContractsAssetsMerkleMetadata,
    OnCol::ContractsStateMerkleData,
    OnCol::ContractsStateMerkleMetadata,
    OnCol::Messages,
    OnCol::ProcessedTransactions,
    OnCol::FuelBlockConsensus,
    OnCol::ConsensusParametersVersions,
    OnCol::StateTransitionBytecodeVersions,
    OnCol::UploadedBytecodes,
    OnCol::Blobs,
    OnCol::GenesisMetadata,
];

pub const OFF_CHAIN_COLUMNS: [OffCol; 18] = [
    OffCol::Metadata,
    OffCol::GenesisMetadata,
    OffCol::OwnedCoins,
    OffCol::TransactionStatus,
    OffCol::TransactionsByOwnerBlockIdx,
    OffCol::OwnedMessageIds,
    OffCol::Statistic,
    OffCol::FuelBlockIdsToHeights,
    OffCol::ContractsInfo,
    OffCol::OldFuelBlocks,
    OffCol::OldFuelBlockConsensus,
    OffCol::OldTransactions,
    OffCol::RelayedTransactionStatus,
    OffCol::SpentMessages,
    OffCol::CoinBalances,
    OffCol::MessageBalances,
    OffCol::AssetsInfo,
    OffCol::CoinsToSpend,
];

/// the hand-written column lists above must cover every column of the enums
pub fn column_lists_complete() -> Result<(), String> {
    if ON_CHAIN_COLUMNS.len() != OnCol::COUNT {
        return Err(format!(
            "on-chain column list has {} entries, enum has {}",
            ON_CHAIN_COLUMNS.len(),
            OnCol::COUNT
        ));
    }
    if OFF_CHAIN_COLUMNS.len() != OffCol::COUNT {
        return Err(format!(
            "off-chain column list has {} entries, enum has {}",
            OFF_CHAIN_COLUMNS.len(),
            OffCol::COUNT
        ));
    }
    Ok(())
}

/// The database metadata record holds a `HashSet` (indexation kinds) whose
/// serialization order differs from process to process and from set to set:
/// replace the raw bytes by a canonical rendering before comparing dumps.
pub fn canonicalize_metadata(dump: &mut DbDump) {
    if let Some(col) = dump.get_mut("Metadata") {
        for v in col.values_mut() {
            if let Ok(m) = postcard::from_bytes::<DatabaseMetadata<fuel_core_types::fuel_types::BlockHeight>>(v) {
                let canon = match m {
                    DatabaseMetadata::V1 { version, height } => format!("V1 version={version} height={height}"),
                    DatabaseMetadata::V2 {
                        version,
                        height,
                        indexation_availability,
                    } => {
                        let mut kinds: Vec<String> = indexation_availability.iter().map(|k| format!("{k:?}")).collect();
                        kinds.sort();
                        format!("V2 version={version} height={height} indexation={kinds:?}")
                    }
                };
                *v = canon.into_bytes();
            }
        }
    }
}

pub fn dump_column<S>(store: &S, col: S::Column) -> Result<ColDump, String>
where
    S: IterableStore,
{
    let mut out = ColDump::new();
    for item in store.iter_store(col, None, None, IterDirection::Forward) {
        let (k, v) = item.map_err(|e| format!("iteration over column {col:?} failed: {e}"))?;
        out.insert(k, v.to_vec());
    }
    Ok(out)
}

pub fn dump_on_chain<Stage>(db: &Database<OnChain, Stage>) -> Result<DbDump, String>
where
    Database<OnChain, Stage>: IterableStore<Column = <OnChain as DatabaseDescription>::Column>,
{
    let mut out = DbDump::new();
    for col in ON_CHAIN_COLUMNS {
        out.insert(col.name(), dump_column(db, col)?);
    }
    Ok(out)
}

pub fn dump_off_chain<Stage>(db: &Database<OffChain, Stage>) -> Result<DbDump, String>
where
    Database<OffChain, Stage>: IterableStore<Column = <OffChain as DatabaseDescription>::Column>,
{
    let mut out = DbDump::new();
    for col in OFF_CHAIN_COLUMNS {
        out.insert(col.name(), dump_column(db, col)?);
    }
    Ok(out)
}

fn short(b: &[u8]) -> String {
    let h = hex::encode(b);
    if h.len() > 80 {
        format!("{}..({}B)", &h[..80], b.len())
    } else {
        h
    }
}

#[derive(Default, Debug)]
pub struct ColDiff {
    pub missing: Vec<String>,
    pub extra: Vec<String>,
    pub changed: Vec<String>,
    pub n_missing: usize,
    pub n_extra: usize,
    pub n_changed: usize,
}

impl ColDiff {
    pub fn is_empty(&self) -> bool {
        self.n_missing == 0 && self.n_extra == 0 && self.n_changed == 0
    }

    pub fn kinds(&self) -> String {
        let mut k = Vec::new();
        if self.n_missing > 0 {
            k.push("missing");
        }
        if self.n_extra > 0 {
            k.push("extra");
        }
        if self.n_changed > 0 {
            k.push("changed");
        }
        k.join("+")
    }

    pub fn describe(&self) -> String {
        format!(
            "missing in observed: {} {:?}; extra in observed: {} {:?}; different value: {} {:?}",
            self.n_missing, self.missing, self.n_extra, self.extra, self.n_changed, self.changed
        )
    }
}

/// `expected` vs `observed`; when `subset_only`, extra keys in `observed` are
/// not a difference.
pub fn diff_col(expected: &ColDump, observed: &ColDump, subset_only: bool) -> ColDiff {
    let mut d = ColDiff::default();
    for (k, v) in expected {
        match observed.get(k) {
            None => {
                d.n_missing += 1;
                if d.missing.len() < 3 {
                    d.missing.push(short(k));
                }
            }
            Some(o) if o != v => {
                d.n_changed += 1;
                if d.changed.len() < 3 {
                    d.changed.push(format!("{}: {} -> {}", short(k), short(v), short(o)));
                }
            }
            _ => {}
        }
    }
    if !subset_only {
        for k in observed.keys() {
            if !expected.contains_key(k) {
                d.n_extra += 1;
                if d.extra.len() < 3 {
                    d.extra.push(short(k));
                }
            }
        }
    }
    d
}

/// all differing columns between two dumps
pub fn diff_db(expected: &DbDump, observed: &DbDump) -> Vec<(String, ColDiff)> {
    let mut out = Vec::new();
    let empty = ColDump::new();
    let mut names: Vec<&String> = expected.keys().chain(observed.keys()).collect();
    names.sort();
    names.dedup();
    for n in names {
        let d = diff_col(
            expected.get(n).unwrap_or(&empty),
            observed.get(n).unwrap_or(&empty),
            false,
        );
        if !d.is_empty() {
            out.push((n.clone(), d));
        }
    }
    out
}
