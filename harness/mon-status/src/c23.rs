//! C23 — the status cache returns the latest published status until it
//! expires: a Submitted status is kept until replaced, a non-Submitted one is
//! returned for at least the configured TTL after its publication, and nothing
//! older than the latest publication is ever returned.
//!
//! One *case* = one real service with a seeded history of publications for 4
//! transaction ids, clock advances around the TTL boundary (paused tokio clock —
//! the cache reads `tokio::time::Instant`) and `get_status` queries, each of
//! which is judged against a model that only remembers "what was published
//! last for this tx and when".

use crate::harness::{
    self,
    Kind,
    Val,
    pick_route,
    value_status,
    ident,
    ident_str,
    make_preconf,
    make_squeezed,
    make_status,
    tx_id,
};
use fuel_core_tx_status_manager::config::Config;
use fuel_core_types::{
    fuel_tx::Address,
    services::transaction_status::TransactionStatus,
};
use std::{
    sync::Arc,
    time::Duration,
};
use tokio::time::Instant;
use vcommon::{
    rand::{
        Rng,
        rngs::StdRng,
    },
    serde_json::{
        Value,
        json,
    },
    *,
};

pub const RULE: &str = "case = one tx-status-manager service (status_cache_ttl in {0,1ms,2.75ms,20ms,1s,1.5s,2.75s,5s}) driven by a seeded history over 4 tx ids of \
publications (all three write routes, single/batched; values are not unique: identical re-publication of the latest value, earlier values coming back, identical entries in one batch, Submitted values shared between txs), paused-clock advances chosen around the ttl boundary (ttl-1ms, ttl, ttl+1ms, ttl/2, 1ms, 2ttl+1ms) \
and get_status queries; evaluation = one judged query; a query is non-trivial (distinct key = ttl, kind of the latest publication, kind before it, \
number of publications for the tx (capped at 4), age class of the latest publication relative to the ttl, observed outcome) if the tx had >= 2 \
publications or its latest status is non-Submitted with age >= ttl/2";

pub const ASSUMPTIONS: &[&str] = &[
    "the cache reads tokio::time::Instant (checked in manager.rs), so the paused tokio clock controls expiry exactly; the harness never advances time while writes are un-acknowledged",
    "only status_cache_ttl decides forgetting; subscription_ttl is always configured to a different value (half of the cases ttl/4) and must not matter to the cache",
    "a get_status round trip is a barrier: queued writes are handled before reads (biased select)",
    "the property bounds forgetting only from below: a non-Submitted status that is still returned after the ttl is accepted (counted as retained_past_ttl)",
    "a panic/stop of the service is reported as inconclusive, not as a violation",
];

const NTX: usize = 4;

#[derive(Clone, Debug)]
struct PubRec {
    kind: Kind,
    serial: u64,
    at: Instant,
    full: Option<TransactionStatus>,
    route: &'static str,
    val: Val,
}

#[derive(Debug, PartialEq, Eq, Clone, Copy)]
pub enum Need {
    /// never published: must be absent
    Absent,
    /// latest is Submitted, or non-Submitted and younger than the ttl: must be returned
    Present,
    /// non-Submitted and at least ttl old: may be forgotten, must not be replaced by anything else
    MayBeForgotten,
}

/// The oracle for one query. `hist` = publications for the tx in order.
fn judge(
    hist: &[PubRec],
    now: Instant,
    ttl: Duration,
    got: &Option<TransactionStatus>,
) -> (Need, Option<(&'static str, String)>) {
    let Some(last) = hist.last() else {
        return match got {
            None => (Need::Absent, None),
            Some(_) => (
                Need::Absent,
                Some(("status_for_unpublished_transaction", format!("nothing was published, got {}", ident_str(got)))),
            ),
        };
    };
    let age = now.duration_since(last.at);
    let need = if last.kind == Kind::Submitted || age < ttl { Need::Present } else { Need::MayBeForgotten };
    let expected = format!("{}#{}", last.kind.name(), last.serial);
    match got {
        None => {
            if need == Need::Present {
                let sig = if last.kind == Kind::Submitted { "submitted_status_forgotten" } else { "status_forgotten_before_ttl" };
                (need, Some((sig, format!("latest publication {expected} (age {age:?}, ttl {ttl:?}) but get_status returned None"))))
            } else {
                (need, None)
            }
        }
        Some(st) => {
            let (kind, serial) = ident(st);
            if kind == last.kind && serial == Some(last.serial) {
                if let Some(full) = &last.full {
                    if full != st {
                        return (need, Some(("status_content_altered", format!("published {full:?}, returned {st:?}"))));
                    }
                }
                return (need, None);
            }
            let older = hist.iter().rev().skip(1).any(|p| Some(p.serial) == serial && p.kind == kind);
            if older {
                (
                    need,
                    Some((
                        "stale_status_returned",
                        format!("latest publication is {expected} (age {age:?}, ttl {ttl:?}) but an older one was returned: {}", ident_str(got)),
                    )),
                )
            } else {
                (
                    need,
                    Some(("wrong_status_returned", format!("latest publication is {expected} but got {}", ident_str(got)))),
                )
            }
        }
    }
}

pub struct Params {
    pub ops: usize,
    pub selftest: u32,
}

fn pick_kind(rng: &mut StdRng) -> Kind {
    match rng.gen_range(0..100u32) {
        0..=27 => Kind::Submitted,
        28..=41 => Kind::PreSuccess,
        42..=51 => Kind::PreFailure,
        52..=59 => Kind::PreSqueezed,
        60..=74 => Kind::Success,
        75..=86 => Kind::Failure,
        _ => Kind::Squeezed,
    }
}

pub fn run_case(report: &Report, shard_seed: u64, case: u64, p: &Params) {
    let rt = harness::new_runtime();
    let mut rng = rng_for(shard_seed, &[case]);
    rt.block_on(case_body(report, &mut rng, shard_seed, case, p));
}

#[allow(unused_assignments)]
async fn case_body(report: &Report, rng: &mut StdRng, shard_seed: u64, case: u64, p: &Params) {
    // microseconds; 2750us has a sub-millisecond part, 1.5s and 2.75s have sub-second parts
    // (a ttl or an age truncated to whole ms / s would forget early or late)
    let ttl_us = *pick(rng, &[0u64, 1_000, 2_750, 20_000, 20_000, 1_000_000, 1_500_000, 1_500_000, 2_750_000, 5_000_000]);
    let ttl = Duration::from_micros(ttl_us);
    let ttl_ms = ttl_us as f64 / 1000.0;
    // subscription_ttl is always different from status_cache_ttl, in half of the cases much
    // shorter: only status_cache_ttl may decide when a status is forgotten
    let sub_ttl = if chance(rng, 50) { Duration::from_micros((ttl_us / 4).max(500)) } else { Duration::from_secs(600) };
    let config = Config {
        max_tx_update_subscriptions: 8,
        subscription_ttl: sub_ttl,
        status_cache_ttl: ttl,
        metrics: false,
    };
    let svc = match harness::start(config, Address::zeroed()).await {
        Ok(s) => s,
        Err(e) => {
            report.inconclusive(format!("C23 case {case}: {e}"));
            return;
        }
    };
    report.count(&format!("cases.ttl_{ttl_ms}ms"));

    let mut hist: Vec<Vec<PubRec>> = vec![Vec::new(); NTX];
    let mut log: Vec<String> = Vec::new();
    let mut next_serial = 1000u64;
    let mut unacked = false;
    let mut dead = false;
    let mut perturbed = false;

    // query + judge; the query is also the write barrier
    macro_rules! query {
        ($tx:expr) => {{
            let tx: usize = $tx;
            match svc.shared.get_status(tx_id(tx)).await {
                Err(e) => {
                    report.inconclusive(format!("C23 case {case}: service stopped answering: {e}"));
                    dead = true;
                }
                Ok(mut got) => {
                    unacked = false;
                    let now = Instant::now();
                    if p.selftest > 0 && !perturbed {
                        let h = &hist[tx];
                        match p.selftest {
                            1 if h.len() >= 2 && got.is_some() => {
                                // stale read: hand the oracle the previous publication
                                let prev = &h[h.len() - 2];
                                got = Some(prev.full.clone().unwrap_or_else(|| make_status(prev.kind, prev.serial, tx_id(tx))));
                                if ident(got.as_ref().unwrap()) != (h[h.len() - 1].kind, Some(h[h.len() - 1].serial)) {
                                    perturbed = true;
                                }
                            }
                            2 if got.is_some() && h.last().is_some_and(|l| l.kind == Kind::Submitted || now.duration_since(l.at) < ttl) => {
                                got = None; // early forgetting
                                perturbed = true;
                            }
                            3 if got.is_none() && h.is_empty() => {
                                got = Some(make_status(Kind::Success, 424_242, tx_id(tx))); // fabricated
                                perturbed = true;
                            }
                            4 if got.is_some()
                                && h.len() >= 2
                                && h[h.len() - 1].kind != Kind::Submitted
                                && h[h.len() - 2].val.serial == h[h.len() - 1].val.serial
                                && now.duration_since(h[h.len() - 2].at) >= ttl
                                && now.duration_since(h[h.len() - 1].at) < ttl =>
                            {
                                // an identical re-publication that did not refresh the time-to-live
                                got = None;
                                perturbed = true;
                            }
                            _ => {}
                        }
                        if perturbed {
                            report.count("selftest.perturbed_queries");
                        }
                    }
                    let (need, verdict) = judge(&hist[tx], now, ttl, &got);
                    report.eval();
                    report.count("queries.total");
                    let h = &hist[tx];
                    let outcome = match (&got, h.last()) {
                        (None, None) => "absent",
                        (None, Some(_)) => "forgotten",
                        (Some(_), _) => "returned",
                    };
                    let age_class = match h.last() {
                        None => "none",
                        Some(l) => {
                            let age = now.duration_since(l.at);
                            let ms = Duration::from_millis(1);
                            if age.is_zero() {
                                "0"
                            } else if age + ms < ttl {
                                "<ttl-1ms"
                            } else if age < ttl {
                                "ttl-1ms"
                            } else if age == ttl {
                                "=ttl"
                            } else if age <= ttl + ms {
                                "ttl+1ms"
                            } else {
                                ">ttl+1ms"
                            }
                        }
                    };
                    match need {
                        Need::Absent => report.count("queries.never_published"),
                        Need::Present => {
                            if h.last().is_some_and(|l| l.kind == Kind::Submitted) {
                                report.count("queries.must_return.submitted");
                                if h.last().is_some_and(|l| now.duration_since(l.at) >= ttl) {
                                    report.count("queries.must_return.submitted_older_than_ttl");
                                }
                            } else {
                                report.count("queries.must_return.within_ttl");
                                if h.last().is_some_and(|l| now.duration_since(l.at) >= sub_ttl) {
                                    report.count("queries.must_return.within_ttl_but_older_than_subscription_ttl");
                                }
                                if h.len() >= 2 && h[h.len() - 2].val.serial == h[h.len() - 1].val.serial && now.duration_since(h[h.len() - 2].at) >= ttl {
                                    report.count("queries.must_return.refreshed_by_identical_value");
                                }
                                if h.len() >= 2 && now.duration_since(h[h.len() - 2].at) >= ttl {
                                    report.count("queries.must_return.within_ttl_after_expired_predecessor");
                                }
                            }
                        }
                        Need::MayBeForgotten => {
                            report.count(if got.is_none() { "queries.expired.forgotten" } else { "queries.expired.retained_past_ttl" });
                        }
                    }
                    report.count(&format!("queries.age.{age_class}"));
                    let nontrivial = h.len() >= 2
                        || h.last().is_some_and(|l| l.kind != Kind::Submitted && now.duration_since(l.at) * 2 >= ttl);
                    if nontrivial {
                        report.distinct(&(
                            ttl_us,
                            h.last().map(|l| l.kind),
                            if h.len() >= 2 { Some(h[h.len() - 2].kind) } else { None },
                            h.len().min(4),
                            age_class,
                            outcome,
                        ));
                    }
                    log.push(format!("query tx{tx} -> {}", ident_str(&got)));
                    if let Some((sig, why)) = verdict {
                        let signature = if p.selftest > 0 { format!("selftest:{sig}") } else { sig.to_string() };
                        let detail = format!(
                            "get_status(tx{tx}) with status_cache_ttl {ttl:?} (subscription_ttl {sub_ttl:?}): {why}; publications for tx (kind#serial@age): {:?}",
                            h.iter().rev().take(6).rev()
                                .map(|r| format!("{}#{}@{:?} via {}", r.kind.name(), r.serial, now.duration_since(r.at), r.route))
                                .collect::<Vec<_>>()
                        );
                        let ops: Vec<Value> = log.iter().rev().take(400).rev().map(|l| json!(l)).collect();
                        report.violation(signature, detail, json!({"shard_seed": shard_seed, "case": case, "ops_per_case": p.ops, "ops": ops}));
                    }
                }
            }
        }};
    }

    for _op in 0..p.ops {
        if dead {
            break;
        }
        let r = rng.gen_range(0..100u32);
        if r < 42 {
            // ---- publication(s); values are not unique: the latest value of a tx is
            // re-published identically (which must refresh its time-to-live), earlier
            // values come back, and different txs share identical Submitted values
            let tx0 = rng.gen_range(0..NTX);
            let m = rng.gen_range(0..100u32);
            let (route, entries): (&'static str, Vec<(usize, Val, &'static str)>) = if m < 15 && !hist[tx0].is_empty() {
                let val = hist[tx0].last().unwrap().val.clone();
                (pick_route(rng, &val), vec![(tx0, val, "repeat_of_latest")])
            } else if m < 20 && hist[tx0].len() >= 2 {
                let l = hist[tx0].len();
                let val = hist[tx0][l - 1 - rng.gen_range(0..l.min(4))].val.clone();
                (pick_route(rng, &val), vec![(tx0, val, "repeat_of_earlier")])
            } else {
                let n = if chance(rng, 15) { rng.gen_range(2..=3usize) } else { 1 };
                let kind0 = pick_kind(rng);
                let mut serial0 = next_serial;
                next_serial += 1;
                let mut tag0 = "fresh";
                if kind0 == Kind::Submitted && chance(rng, 10) {
                    let other = (tx0 + 1 + rng.gen_range(0..NTX - 1)) % NTX;
                    if let Some(p) = hist[other].iter().rev().find(|p| p.val.kind == Kind::Submitted) {
                        serial0 = p.val.serial;
                        tag0 = "value_shared_with_other_tx";
                    }
                }
                let val0 = Val { kind: kind0, serial: serial0, preconf_family: kind0.is_preconfirmation() && chance(rng, 60) };
                let route = pick_route(rng, &val0);
                let mut entries = vec![(tx0, val0, tag0)];
                if route != "update_status" {
                    for _ in 1..n {
                        if chance(rng, 20) {
                            let (tx, val, _) = entries.last().cloned().unwrap();
                            entries.push((tx, val, "repeat_in_batch"));
                            continue;
                        }
                        let tx = if chance(rng, 30) { tx0 } else { rng.gen_range(0..NTX) };
                        let kind = if route == "update_statuses" {
                            Kind::Squeezed
                        } else {
                            *pick(rng, &[Kind::PreSuccess, Kind::PreFailure, Kind::PreSqueezed])
                        };
                        let serial = next_serial;
                        next_serial += 1;
                        entries.push((tx, Val { kind, serial, preconf_family: route == "update_preconfirmations" }, "fresh"));
                    }
                }
                (route, entries)
            };
            let now = Instant::now();
            let mut squeezed = Vec::new();
            let mut preconfs = Vec::new();
            for (tx, val, tag) in entries.iter().cloned() {
                let (kind, serial) = (val.kind, val.serial);
                let full = match route {
                    "update_status" => {
                        let st = value_status(&val, tx);
                        svc.shared.update_status(tx_id(tx), st.clone());
                        Some(st)
                    }
                    "update_statuses" => {
                        let sq = make_squeezed(serial, tx_id(tx));
                        squeezed.push((tx_id(tx), sq.clone()));
                        Some(TransactionStatus::SqueezedOut(Arc::new(sq)))
                    }
                    _ => {
                        preconfs.push(make_preconf(kind, serial, tx_id(tx)));
                        None
                    }
                };
                if hist[tx].last().is_some_and(|l| now.duration_since(l.at) < ttl) {
                    report.count("published.replacing_unexpired_status");
                }
                if hist[tx].last().is_some_and(|l| l.val.serial == serial && !now.duration_since(l.at).is_zero()) {
                    report.count("published.identical_value_refreshing_ttl");
                }
                hist[tx].push(PubRec { kind, serial, at: now, full, route, val });
                report.count(&format!("published.{}", kind.name()));
                report.count(&format!("published.value.{tag}"));
                log.push(format!("pub tx{tx} {}#{serial} via {route} ({tag})", kind.name()));
            }
            if !squeezed.is_empty() {
                svc.shared.update_statuses(squeezed);
            }
            if !preconfs.is_empty() {
                svc.shared.update_preconfirmations(preconfs);
            }
            unacked = true;
            report.count(&format!("ops.publish.{route}"));
            if chance(rng, 75) {
                query!(rng.gen_range(0..NTX));
                if !dead && chance(rng, 50) {
                    for tx in 0..NTX {
                        if !dead {
                            query!(tx);
                        }
                    }
                }
            }
        } else if r < 64 {
            // ---- advance; never while writes are un-acknowledged
            if unacked {
                query!(rng.gen_range(0..NTX));
                if dead {
                    break;
                }
            }
            let ms = Duration::from_millis(1);
            let choices = [
                ttl.saturating_sub(ms),
                ttl,
                ttl + ms,
                ttl / 2,
                ms,
                ttl * 2 + ms,
                ttl.saturating_sub(ms),
                ttl + ms,
            ];
            let mut d = *pick(rng, &choices);
            if d.is_zero() {
                d = ms;
            }
            tokio::time::advance(d).await;
            log.push(format!("advance {d:?}"));
            report.count("ops.advance");
        } else {
            query!(rng.gen_range(0..NTX));
            report.count("ops.query");
        }
        for _ in 0..rng.gen_range(0..2u32) {
            tokio::task::yield_now().await;
        }
    }
    if !dead {
        for tx in 0..NTX {
            if !dead {
                query!(tx);
            }
        }
    }
    if report.wants_sample() && !dead {
        report.sample(json!({"ttl_ms": ttl_ms, "first_ops": log.iter().take(40).collect::<Vec<_>>()}));
    }
    svc.stop().await;
}

pub fn run(args: &Args, report: &Report) {
    let selftest: u32 = args.extra.get("selftest").and_then(|s| s.parse().ok()).unwrap_or(0);
    if let Some(r) = read_replay(args) {
        let shard_seed = r["shard_seed"].as_u64().unwrap_or(0);
        let case = r["case"].as_u64().unwrap_or(0);
        let ops = r["ops_per_case"].as_u64().unwrap_or(300) as usize;
        run_case(report, shard_seed, case, &Params { ops, selftest });
        report.note(format!("replayed shard_seed={shard_seed} case={case}"));
        return;
    }
    let shards = 16usize;
    let cases: u64 = args.by_tier(100, 1500);
    let ops: usize = args.by_tier(400, 600);
    let rep = report.clone();
    run_shards(report, args, shards, move |_shard, shard_seed| {
        for case in 0..cases {
            run_case(&rep, shard_seed, case, &Params { ops, selftest });
        }
    });
    if selftest == 0 {
        report.require("queries.total", 300_000);
        report.require("queries.must_return.submitted", 50_000);
        report.require("queries.must_return.submitted_older_than_ttl", 10_000);
        report.require("queries.must_return.within_ttl", 50_000);
        report.require("queries.must_return.within_ttl_after_expired_predecessor", 10_000);
        report.require("queries.expired.forgotten", 20_000);
        report.require("queries.age.ttl-1ms", 2_000);
        report.require("queries.age.=ttl", 2_000);
        report.require("published.replacing_unexpired_status", 20_000);
        report.require("ops.publish.update_statuses", 500);
        report.require("queries.must_return.within_ttl_but_older_than_subscription_ttl", 5_000);
        report.require("published.value.repeat_of_latest", 10_000);
        report.require("published.value.repeat_of_earlier", 3_000);
        report.require("published.identical_value_refreshing_ttl", 2_000);
        report.require("queries.must_return.refreshed_by_identical_value", 1_000);
        report.require("ops.publish.update_preconfirmations", 2_000);
    }
}
