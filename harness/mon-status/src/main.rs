//! Runtime monitors for the transaction status manager:
//! C22 (subscription streams), C23 (status cache), C44 (preconfirmation gossip).
//! Everything is driven through the public API of `fuel-core-tx-status-manager`.

mod c22;
mod c23;
mod c44;
mod harness;

use std::time::Duration;
use vcommon::*;

fn main() {
    let args = Args::parse();
    install_quiet_panic_hook();
    let report = Report::new(&args.property);

    // outer wall-clock watchdog: firing is *inconclusive*, never a violation
    {
        let report = report.clone();
        let args = args.clone();
        let cap = Duration::from_secs(args.by_tier(110, 1500));
        std::thread::spawn(move || {
            std::thread::sleep(cap);
            report.inconclusive(format!("watchdog: monitor still running after {cap:?}"));
            report.finish(&args, "exploration", "watchdog fired", false, &[]);
            std::process::exit(0);
        });
    }

    let (rule, assumptions): (&str, &[&str]) = match args.property.as_str() {
        "C22" => {
            c22::run(&args, &report);
            (c22::RULE, c22::ASSUMPTIONS)
        }
        "C23" => {
            c23::run(&args, &report);
            (c23::RULE, c23::ASSUMPTIONS)
        }
        "C44" => {
            c44::run(&args, &report);
            (c44::RULE, c44::ASSUMPTIONS)
        }
        other => {
            report.inconclusive(format!("property {other} not implemented in this monitor"));
            ("", &[])
        }
    };
    if let Some(n) = args.extra.get("selftest") {
        report.note(format!("oracle self-test mode {n}: observations were deliberately perturbed on the harness side"));
    }
    report.finish(&args, "exploration", rule, false, assumptions);
}
