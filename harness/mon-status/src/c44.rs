//! C44 — only properly delegated, unexpired preconfirmations are accepted from
//! peers; everything else is rejected and reported as invalid gossip; a
//! delegation does not survive its expiration.
//!
//! The real service is driven through its P2P port (gossip channel in,
//! validity reports out) and the `ProtocolPublicKey` port (key rotation). The
//! oracle never re-verifies signatures: it knows *by construction* which key
//! signed what and what was tampered with after signing, and it keeps its own
//! table "expiration -> delegate key registered by a delegation that was signed
//! by the then-current protocol key".
//!
//! Expirations are compared by the service with the wall clock (`Tai64::now()`),
//! so per DESIGN 3.7 the harness stamps wall time before/after every message and
//! judges the time-dependent part only when both stamps are on the same side of
//! the expiration with a 1 s margin; everything else is counted as ambiguous.

use crate::harness::{
    self,
    Kind,
    Polled,
    Svc,
    ident,
    ident_str,
    make_preconf,
    poll_once,
    tx_id,
};
use fuel_core_services::stream::BoxStream;
use fuel_core_tx_status_manager::{
    config::Config,
    ports::P2PPreConfirmationMessage,
};
use fuel_core_types::{
    ed25519_dalek::{
        Signer,
        SigningKey,
    },
    fuel_crypto::{
        Message,
        SecretKey,
        Signature,
    },
    fuel_tx::{
        Address,
        Bytes64,
        Input,
        TxId,
    },
    services::{
        p2p::{
            DelegatePreConfirmationKey,
            GossipData,
            GossipsubMessageAcceptance,
            PeerId,
            Sealed,
        },
        preconfirmation::{
            Preconfirmation,
            Preconfirmations,
        },
        transaction_status::{
            PreConfirmationStatus,
            TransactionStatus,
        },
    },
    tai64::Tai64,
};
use std::{
    collections::{
        HashMap,
        HashSet,
    },
    time::Duration,
};
use tokio::sync::broadcast;
use vcommon::{
    rand::{
        Rng,
        rngs::StdRng,
    },
    serde_json::{
        Value,
        json,
    },
    *,
};

pub const RULE: &str = "case = one gossip message (delegation or preconfirmation batch) delivered to a running tx-status-manager service whose state was built by the \
preceding seeded messages: 3 protocol keys with rotation, 4 ed25519 delegate keys, expirations far future / far past / 3-4 s ahead (then real waiting across the \
expiration), signers right / other delegate / unregistered / old protocol key, tampering after signing (expiration, key, tx id, status, extra/dropped entry, signature), \
replays, overwritten delegations; every message is judged (validity report, published statuses, preconfirmation listener, status cache); distinct key = message type, \
signer class, tamper kind, time class, relation of the signer to the registered delegate, expected outcome; all judged messages are non-trivial";

pub const ASSUMPTIONS: &[&str] = &[
    "the service reads the wall clock (Tai64::now(), checked in service.rs); time-dependent expectations are judged only if both wall stamps around the message are >=1 s before or >=2 s after the expiration, else counted as ambiguous",
    "'current protocol key' is the key current when the delegation was received; batches relying on a delegation received under a previous key are not judged for accept/reject (counted), only for consistency",
    "a delegation with a valid signature whose expiration is not clearly in the future is not judged for accept/reject (the property text does not say whether such a delegation itself is invalid gossip); it must still never enable a batch",
    "a batch signed by a delegate key that was registered for the expiration and later overwritten by another delegation for the same expiration is not judged for accept/reject",
    "signature validity is known by construction (which key signed, what was modified afterwards), not re-verified by the harness",
    "a panic/stop of the service is reported as inconclusive, not as a violation",
];

const NTX: usize = 4;
const NPROTO: usize = 3;
const NDELEG: usize = 4;

#[derive(Clone, Debug)]
enum Desc {
    Deleg {
        /// protocol key index that signed; None = a key that never was a protocol key
        signer: Option<usize>,
        delegate: usize,
        exp: u64,
        tamper: Option<&'static str>,
    },
    Batch {
        /// delegate key index that signed; None = a key nobody ever delegated to
        signer: Option<usize>,
        exp: u64,
        tamper: Option<&'static str>,
        /// the entries of the entity as delivered (after tampering)
        entries: Vec<(usize, Kind, u64)>,
    },
}

#[derive(Clone, Copy, Debug, PartialEq, Eq, Hash)]
enum Time {
    Future,
    Past,
    Ambiguous,
}

#[derive(Clone, Copy, Debug, PartialEq, Eq, Hash)]
enum Expect {
    MustAccept,
    MustReject(&'static str),
    NotJudged(&'static str),
}

#[derive(Clone, Copy)]
struct Reg {
    key: usize,
    proto: usize,
}

struct World {
    svc: Svc,
    all: BoxStream<anyhow::Result<(TxId, TransactionStatus)>>,
    pre: broadcast::Receiver<(TxId, PreConfirmationStatus)>,
    protos: Vec<SecretKey>,
    addrs: Vec<Address>,
    delegates: Vec<SigningKey>,
    current: usize,
    regs: HashMap<u64, Reg>,
    ever: HashSet<(u64, usize)>,
    cur_status: [Option<(Kind, u64)>; NTX],
    next_serial: u64,
    next_msg: u64,
    exps: Vec<u64>,
    sent: Vec<(Desc, P2PPreConfirmationMessage)>,
    log: Vec<String>,
    dead: bool,
    selftest: u32,
    perturbed: bool,
    shard_seed: u64,
    round: u64,
}

fn time_class(exp: u64, before: u64, after: u64) -> Time {
    if after.saturating_add(1) <= exp {
        Time::Future
    } else if before >= exp.saturating_add(2) {
        Time::Past
    } else {
        Time::Ambiguous
    }
}

fn sign_delegation(sk: &SecretKey, entity: &DelegatePreConfirmationKey<fuel_core_types::services::p2p::DelegatePublicKey>) -> Signature {
    let bytes = postcard::to_allocvec(entity).expect("serialize delegation");
    Signature::sign(sk, &Message::new(&bytes))
}

fn sign_batch(k: &SigningKey, entity: &Preconfirmations) -> Bytes64 {
    let bytes = postcard::to_allocvec(entity).expect("serialize batch");
    Bytes64::new(k.sign(&bytes).to_bytes())
}

fn random_signing_key(rng: &mut StdRng) -> SigningKey {
    let mut b = [0u8; 32];
    rng.fill(&mut b);
    SigningKey::from_bytes(&b)
}

fn pre_ident(s: &PreConfirmationStatus) -> (Kind, Option<u64>) {
    let st: TransactionStatus = match s {
        PreConfirmationStatus::Success(x) => TransactionStatus::PreConfirmationSuccess(x.clone()),
        PreConfirmationStatus::SqueezedOut(x) => TransactionStatus::PreConfirmationSqueezedOut(x.clone()),
        PreConfirmationStatus::Failure(x) => TransactionStatus::PreConfirmationFailure(x.clone()),
    };
    ident(&st)
}

impl World {
    fn exp_name(&self, exp: u64) -> String {
        let now = Tai64::now().0;
        if exp == u64::MAX {
            "MAX".to_string()
        } else if exp >= now {
            format!("now+{}", exp - now)
        } else {
            format!("now-{}", now - exp)
        }
    }

    fn build_delegation(&self, rng: &mut StdRng, signer: Option<usize>, delegate: usize, exp: u64, tamper: Option<&'static str>) -> (Desc, P2PPreConfirmationMessage) {
        let mut entity = DelegatePreConfirmationKey {
            public_key: self.delegates[delegate].verifying_key(),
            expiration: Tai64(exp),
        };
        let mut signature = match signer {
            Some(i) => sign_delegation(&self.protos[i], &entity),
            None => sign_delegation(&SecretKey::random(rng), &entity),
        };
        let mut final_exp = exp;
        let mut final_delegate = delegate;
        match tamper {
            Some("expiration") => {
                let others: Vec<u64> = self.exps.iter().copied().filter(|e| *e != exp).collect();
                final_exp = *pick(rng, &others);
                entity.expiration = Tai64(final_exp);
            }
            Some("public_key") => {
                final_delegate = (delegate + 1 + rng.gen_range(0..NDELEG - 1)) % NDELEG;
                entity.public_key = self.delegates[final_delegate].verifying_key();
            }
            Some("signature") => {
                let mut b: [u8; 64] = *signature;
                let i = rng.gen_range(0..64usize);
                b[i] ^= 1u8 << rng.gen_range(0..8u32);
                signature = Signature::from_bytes(b);
            }
            _ => {}
        }
        let msg = P2PPreConfirmationMessage::Delegate {
            seal: Sealed { entity, signature },
            nonce: rng.r#gen(),
        };
        (Desc::Deleg { signer, delegate: final_delegate, exp: final_exp, tamper }, msg)
    }

    fn build_batch(&mut self, rng: &mut StdRng, signer: Option<usize>, exp: u64, n: usize, tamper: Option<&'static str>) -> (Desc, P2PPreConfirmationMessage) {
        let mut entries: Vec<(usize, Kind, u64)> = Vec::new();
        for _ in 0..n {
            let tx = rng.gen_range(0..NTX);
            let kind = *pick(rng, &[Kind::PreSuccess, Kind::PreSuccess, Kind::PreFailure, Kind::PreSqueezed]);
            let serial = self.next_serial;
            self.next_serial += 1;
            entries.push((tx, kind, serial));
        }
        let to_preconfs = |e: &[(usize, Kind, u64)]| -> Vec<Preconfirmation> { e.iter().map(|(tx, k, s)| make_preconf(*k, *s, tx_id(*tx))).collect() };
        let mut entity = Preconfirmations {
            expiration: Tai64(exp),
            preconfirmations: to_preconfs(&entries),
        };
        let mut signature = match signer {
            Some(i) => sign_batch(&self.delegates[i], &entity),
            None => sign_batch(&random_signing_key(rng), &entity),
        };
        let mut final_exp = exp;
        let mut tamper = tamper;
        match tamper {
            Some("tx_id") if !entries.is_empty() => {
                let i = rng.gen_range(0..entries.len());
                entries[i].0 = (entries[i].0 + 1 + rng.gen_range(0..NTX - 1)) % NTX;
                // keep the squeezed-out reason as signed; only the tx id moves
                entity.preconfirmations[i].tx_id = tx_id(entries[i].0);
            }
            Some("status") if !entries.is_empty() => {
                let i = rng.gen_range(0..entries.len());
                let serial = self.next_serial;
                self.next_serial += 1;
                entries[i].2 = serial;
                entity.preconfirmations[i] = make_preconf(entries[i].1, serial, tx_id(entries[i].0));
            }
            Some("extra_entry") => {
                let serial = self.next_serial;
                self.next_serial += 1;
                let e = (rng.gen_range(0..NTX), Kind::PreSuccess, serial);
                entity.preconfirmations.push(make_preconf(e.1, e.2, tx_id(e.0)));
                entries.push(e);
            }
            Some("drop_entry") if !entries.is_empty() => {
                entries.pop();
                entity.preconfirmations.pop();
            }
            Some("expiration") => {
                // preferably to another expiration that has a registered delegate
                let mut others: Vec<u64> = self.regs.keys().copied().filter(|e| *e != exp).collect();
                others.sort();
                if others.is_empty() {
                    others = self.exps.iter().copied().filter(|e| *e != exp).collect();
                }
                final_exp = *pick(rng, &others);
                entity.expiration = Tai64(final_exp);
            }
            Some("signature") => {
                let mut b: [u8; 64] = *signature;
                let i = rng.gen_range(0..64usize);
                b[i] ^= 1u8 << rng.gen_range(0..8u32);
                signature = Bytes64::new(b);
            }
            Some(_) => {
                // tamper kind not applicable to an empty batch: fall back to the signature
                let mut b: [u8; 64] = *signature;
                b[7] ^= 0x10;
                signature = Bytes64::new(b);
                tamper = Some("signature");
            }
            None => {}
        }
        let msg = P2PPreConfirmationMessage::Preconfirmations(Sealed { entity, signature });
        (Desc::Batch { signer, exp: final_exp, tamper, entries }, msg)
    }

    /// the model's expectation for a message arriving between the wall stamps
    fn expect(&self, desc: &Desc, before: u64, after: u64, skew: bool) -> (Expect, Time, &'static str) {
        match desc {
            Desc::Deleg { signer, exp, tamper, .. } => {
                let t = time_class(*exp, before, after);
                if tamper.is_some() {
                    return (Expect::MustReject("tampered_delegation"), t, "tampered");
                }
                match signer {
                    None => (Expect::MustReject("delegation_signed_by_unknown_key"), t, "unknown_key"),
                    Some(i) if *i != self.current => (Expect::MustReject("delegation_signed_by_non_current_protocol_key"), t, "non_current_protocol_key"),
                    Some(_) => {
                        if t == Time::Future {
                            (Expect::MustAccept, t, "current_protocol_key")
                        } else {
                            (Expect::NotJudged("delegation_not_clearly_unexpired"), t, "current_protocol_key")
                        }
                    }
                }
            }
            Desc::Batch { signer, exp, tamper, .. } => {
                let mut t = time_class(*exp, before, after);
                if skew && t == Time::Past {
                    t = Time::Future; // selftest: the model's clock is wrong
                }
                let relation: &'static str = match (signer, self.regs.get(exp)) {
                    (None, _) => "unregistered_key",
                    (Some(_), None) => "no_delegation_for_expiration",
                    (Some(d), Some(reg)) if reg.key == *d => {
                        if reg.proto == self.current { "registered" } else { "registered_under_previous_protocol_key" }
                    }
                    (Some(d), Some(_)) => {
                        if self.ever.contains(&(*exp, *d)) { "overwritten" } else { "other_delegate_registered" }
                    }
                };
                if tamper.is_some() {
                    return (Expect::MustReject("tampered_batch"), t, relation);
                }
                let e = match relation {
                    "unregistered_key" => Expect::MustReject("batch_signed_by_unregistered_key"),
                    "no_delegation_for_expiration" => Expect::MustReject("batch_without_delegation_for_expiration"),
                    "other_delegate_registered" => Expect::MustReject("batch_signed_by_key_not_delegated_for_expiration"),
                    "overwritten" => {
                        if t == Time::Past { Expect::MustReject("expired_batch") } else { Expect::NotJudged("delegate_key_overwritten") }
                    }
                    "registered_under_previous_protocol_key" => {
                        if t == Time::Past { Expect::MustReject("expired_batch") } else { Expect::NotJudged("protocol_key_rotated_since_delegation") }
                    }
                    _ => match t {
                        Time::Past => Expect::MustReject("expired_batch"),
                        Time::Ambiguous => Expect::NotJudged("time_ambiguous"),
                        Time::Future => Expect::MustAccept,
                    },
                };
                (e, t, relation)
            }
        }
    }

    fn violation(&self, report: &Report, sig: String, why: String, desc: &Desc, before: u64, after: u64) {
        let signature = if self.selftest > 0 { format!("selftest:{sig}") } else { sig };
        let d = match desc {
            Desc::Deleg { signer, delegate, exp, tamper } => format!(
                "delegation(delegate key d{delegate}, expiration {} [{}], signed by {}, tamper {:?})",
                exp,
                self.exp_name(*exp),
                signer.map(|i| format!("protocol key K{i}")).unwrap_or("a never-configured key".into()),
                tamper
            ),
            Desc::Batch { signer, exp, tamper, entries } => format!(
                "batch(expiration {} [{}], signed by {}, tamper {:?}, entries {:?})",
                exp,
                self.exp_name(*exp),
                signer.map(|i| format!("delegate key d{i}")).unwrap_or("an undelegated key".into()),
                tamper,
                entries.iter().map(|(tx, k, s)| format!("tx{tx}:{}#{s}", k.name())).collect::<Vec<_>>()
            ),
        };
        let regs: Vec<String> = {
            let mut v: Vec<(u64, Reg)> = self.regs.iter().map(|(k, v)| (*k, *v)).collect();
            v.sort_by_key(|x| x.0);
            v.iter().map(|(e, r)| format!("{}[{}]->d{} (by K{})", e, self.exp_name(*e), r.key, r.proto)).collect()
        };
        let detail = format!(
            "{why}; message: {d}; wall stamps (TAI s) before={before} after={after}; current protocol key K{}; model delegations: {regs:?}",
            self.current
        );
        let ops: Vec<Value> = self.log.iter().rev().take(120).rev().map(|l| json!(l)).collect();
        report.violation(signature, detail, json!({"shard_seed": self.shard_seed, "round": self.round, "note": "wall-clock dependent; the recorded history is the witness", "ops": ops}));
    }

    /// deliver one message, observe, judge
    async fn deliver(&mut self, report: &Report, desc: Desc, payload: P2PPreConfirmationMessage, tag: &'static str) {
        if self.dead {
            return;
        }
        let msg_id = self.next_msg;
        self.next_msg += 1;
        let message_id = msg_id.to_be_bytes().to_vec();
        let peer_id = PeerId::from(vec![(msg_id % 251) as u8, 7, 7]);
        let gossip = GossipData {
            data: Some(payload),
            peer_id: peer_id.clone(),
            message_id: message_id.clone(),
        };
        let before = Tai64::now().0;
        if self.svc.gossip_tx.send(gossip).await.is_err() {
            report.inconclusive("C44: gossip channel closed (service stopped)");
            self.dead = true;
            return;
        }
        // barrier: the task looks at gossip first, then writes, then reads
        let mut got: Vec<Option<TransactionStatus>> = Vec::new();
        for tx in 0..NTX {
            match self.svc.shared.get_status(tx_id(tx)).await {
                Ok(s) => got.push(s),
                Err(e) => {
                    report.inconclusive(format!("C44: service stopped answering: {e}"));
                    self.dead = true;
                    return;
                }
            }
        }
        let after = Tai64::now().0;

        // ---- observations
        let mut validity = Vec::new();
        while let Ok(v) = self.svc.validity_rx.try_recv() {
            validity.push(v);
        }
        let mut events: Vec<(TxId, (Kind, Option<u64>))> = Vec::new();
        for _ in 0..64 {
            match poll_once(&mut self.all) {
                Polled::Item(Ok((tx, st))) => events.push((tx, ident(&st))),
                Polled::Item(Err(e)) => {
                    report.inconclusive(format!("C44: status broadcast lagged: {e}"));
                    self.dead = true;
                    return;
                }
                Polled::Ended | Polled::Pending => break,
            }
        }
        let mut pre_events: Vec<(TxId, (Kind, Option<u64>))> = Vec::new();
        loop {
            match self.pre.try_recv() {
                Ok((tx, s)) => pre_events.push((tx, pre_ident(&s))),
                Err(broadcast::error::TryRecvError::Lagged(n)) => {
                    report.inconclusive(format!("C44: preconfirmation listener lagged by {n}"));
                    self.dead = true;
                    return;
                }
                Err(_) => break,
            }
        }

        // ---- selftest perturbations of the observations
        let mut skew = false;
        if self.selftest > 0 && !self.perturbed {
            match self.selftest {
                1 if validity.len() == 1 => {
                    validity[0].1 = match validity[0].1 {
                        GossipsubMessageAcceptance::Accept => GossipsubMessageAcceptance::Reject,
                        _ => GossipsubMessageAcceptance::Accept,
                    };
                    self.perturbed = true;
                }
                2 if validity.len() == 1 && validity[0].1 == GossipsubMessageAcceptance::Reject && matches!(desc, Desc::Batch { .. }) => {
                    events.push((tx_id(0), (Kind::PreSuccess, Some(777))));
                    self.perturbed = true;
                }
                3 if !validity.is_empty() => {
                    validity.clear();
                    self.perturbed = true;
                }
                4 => {
                    if let Desc::Batch { exp, .. } = &desc {
                        if time_class(*exp, before, after) == Time::Past {
                            let (e, _, _) = self.expect(&desc, before, after, true);
                            if e == Expect::MustAccept {
                                skew = true;
                                self.perturbed = true;
                            }
                        }
                    }
                }
                _ => {}
            }
            if self.perturbed {
                report.count("selftest.perturbed_messages");
            }
        }

        let (expect, t, relation) = self.expect(&desc, before, after, skew);
        report.eval();
        let (mtype, tamper) = match &desc {
            Desc::Deleg { tamper, .. } => ("delegation", *tamper),
            Desc::Batch { tamper, .. } => ("batch", *tamper),
        };
        report.count(&format!("messages.{mtype}"));
        report.count(&format!("messages.{mtype}.time_{t:?}"));
        if let Some(tk) = tamper {
            report.count(&format!("messages.{mtype}.tampered.{tk}"));
        }
        report.count(&format!("messages.{mtype}.signer.{relation}"));
        match expect {
            Expect::MustAccept => report.count(&format!("expected.must_accept.{mtype}")),
            Expect::MustReject(r) => {
                report.count(&format!("expected.must_reject.{mtype}"));
                report.count(&format!("expected.must_reject.reason.{r}"));
            }
            Expect::NotJudged(r) => report.count(&format!("excluded.not_judged.{r}")),
        }
        if tag != "" {
            report.count(&format!("boundary.{tag}.{}", match expect {
                Expect::MustAccept => "judged_must_accept",
                Expect::MustReject(_) => "judged_must_reject",
                Expect::NotJudged(_) => "not_judged",
            }));
        }
        report.distinct(&(mtype, relation, tamper, t, expect));
        self.log.push(format!("msg#{msg_id} {desc:?} stamps {before}..{after} -> validity {:?} events {}", validity.iter().map(|v| v.1).collect::<Vec<_>>(), events.len()));
        if self.log.len() > 4000 {
            self.log.drain(0..2000);
        }

        // ---- (1) exactly one validity report for this message
        if validity.len() != 1 {
            let sig = if validity.is_empty() { "no_validity_report" } else { "multiple_validity_reports" };
            self.violation(report, format!("{sig} type={mtype}"), format!("expected exactly one validity report, got {:?}", validity), &desc, before, after);
        } else if validity[0].0.message_id != message_id || validity[0].0.peer_id != peer_id {
            self.violation(report, format!("validity_report_for_wrong_message type={mtype}"), format!("report names {:?}", validity[0].0), &desc, before, after);
        }
        let acc = validity.first().map(|v| v.1);
        match acc {
            Some(GossipsubMessageAcceptance::Accept) => report.count(&format!("observed.accept.{mtype}")),
            Some(GossipsubMessageAcceptance::Reject) => report.count(&format!("observed.reject.{mtype}")),
            Some(GossipsubMessageAcceptance::Ignore) => report.count(&format!("observed.ignore.{mtype}")),
            None => {}
        }
        let accepted = acc == Some(GossipsubMessageAcceptance::Accept);
        let rejected = acc == Some(GossipsubMessageAcceptance::Reject);

        // ---- (2) effects
        let expected_events: Vec<(TxId, (Kind, Option<u64>))> = match &desc {
            Desc::Batch { entries, .. } => entries.iter().map(|(tx, k, s)| (tx_id(*tx), (*k, Some(*s)))).collect(),
            Desc::Deleg { .. } => Vec::new(),
        };
        let has_effects = !events.is_empty() || !pre_events.is_empty();
        let ev_str = |e: &[(TxId, (Kind, Option<u64>))]| -> Vec<String> {
            e.iter().map(|(tx, (k, s))| format!("tx{}:{}#{:?}", tx[0].wrapping_sub(1), k.name(), s)).collect()
        };
        match (&desc, expect) {
            (Desc::Deleg { .. }, _) if has_effects => {
                self.violation(report, "delegation_changed_statuses".into(), format!("a delegation message published statuses {:?}", ev_str(&events)), &desc, before, after);
            }
            _ => {}
        }
        match expect {
            Expect::MustReject(reason) => {
                if has_effects {
                    self.violation(
                        report,
                        format!("unauthorized_{mtype}_changed_statuses reason={reason}"),
                        format!("the message must be rejected ({reason}) but statuses were published: {:?} (preconfirmation listener {:?})", ev_str(&events), ev_str(&pre_events)),
                        &desc,
                        before,
                        after,
                    );
                }
                if acc.is_some() && !rejected {
                    self.violation(
                        report,
                        format!("invalid_{mtype}_not_rejected reason={reason}"),
                        format!("the message must be rejected ({reason}) and reported as invalid gossip, validity report was {acc:?}"),
                        &desc,
                        before,
                        after,
                    );
                }
            }
            Expect::MustAccept => {
                if acc.is_some() && !accepted {
                    self.violation(
                        report,
                        format!("valid_{mtype}_rejected"),
                        format!("properly delegated, unexpired message got validity report {acc:?}"),
                        &desc,
                        before,
                        after,
                    );
                }
                if mtype == "batch" && events != expected_events {
                    self.violation(
                        report,
                        "valid_batch_statuses_not_published".into(),
                        format!("expected statuses {:?}, published {:?}", ev_str(&expected_events), ev_str(&events)),
                        &desc,
                        before,
                        after,
                    );
                }
            }
            Expect::NotJudged(_) => {}
        }
        // consistency between report and effects, whatever the expectation
        if mtype == "batch" && acc.is_some() {
            let consistent = if accepted { events == expected_events } else { !has_effects };
            if !consistent && !matches!(expect, Expect::MustReject(_)) && !(expect == Expect::MustAccept && accepted) {
                self.violation(
                    report,
                    "validity_report_inconsistent_with_published_statuses".into(),
                    format!("validity {acc:?} but published {:?} (batch entries {:?})", ev_str(&events), ev_str(&expected_events)),
                    &desc,
                    before,
                    after,
                );
            }
            if pre_events != events {
                self.violation(
                    report,
                    "preconfirmation_listener_differs_from_published_statuses".into(),
                    format!("listener {:?} vs published {:?}", ev_str(&pre_events), ev_str(&events)),
                    &desc,
                    before,
                    after,
                );
            }
        }
        // ---- (3) status cache follows the observed publications only
        for (tx, (k, s)) in &events {
            let i = tx[0].wrapping_sub(1) as usize;
            if i < NTX {
                if let Some(s) = s {
                    self.cur_status[i] = Some((*k, *s));
                }
            }
        }
        for tx in 0..NTX {
            let have = got[tx].as_ref().map(ident);
            let want = self.cur_status[tx].map(|(k, s)| (k, Some(s)));
            if have != want {
                self.violation(
                    report,
                    "status_cache_differs_from_published_statuses".into(),
                    format!("get_status(tx{tx}) = {} but the last published status is {:?}", ident_str(&got[tx]), want),
                    &desc,
                    before,
                    after,
                );
                // resynchronise to avoid cascades
                self.cur_status[tx] = have.and_then(|(k, s)| s.map(|s| (k, s)));
            }
        }

        // ---- model update: a delegation signed (untampered) by the current key registers its key
        if let Desc::Deleg { signer, delegate, exp, tamper } = &desc {
            if tamper.is_none() && *signer == Some(self.current) {
                if self.regs.get(exp).is_some_and(|r| r.key != *delegate) {
                    report.count("model.delegation_overwritten");
                }
                self.regs.insert(*exp, Reg { key: *delegate, proto: self.current });
                self.ever.insert((*exp, *delegate));
            }
        }
        if report.wants_sample() && matches!(expect, Expect::MustReject("expired_batch")) {
            report.sample(json!({"message": format!("{desc:?}"), "stamps": [before, after], "expected": format!("{expect:?}"), "validity": format!("{acc:?}"), "published": ev_str(&events)}));
        }
    }
}

/// deliver and remember the message for later replays
async fn deliver_keep(w: &mut World, report: &Report, desc: Desc, payload: P2PPreConfirmationMessage, tag: &'static str) {
    w.deliver(report, desc.clone(), payload.clone(), tag).await;
    if w.sent.len() < 4000 {
        w.sent.push((desc, payload));
    }
}

fn wait_until_tai(target: u64, extra: Duration) -> bool {
    for _ in 0..600 {
        if Tai64::now().0 >= target {
            std::thread::sleep(extra);
            return true;
        }
        std::thread::sleep(Duration::from_millis(20));
    }
    false
}

pub struct Params {
    pub msgs: usize,
    pub selftest: u32,
}

async fn phase_random(w: &mut World, report: &Report, rng: &mut StdRng, n: usize) {
    for _ in 0..n {
        if w.dead {
            return;
        }
        let r = rng.gen_range(0..100u32);
        if r < 7 {
            // rotate the protocol key through the port
            let next = (w.current + 1 + rng.gen_range(0..NPROTO - 1)) % NPROTO;
            w.current = next;
            *w.svc.key.lock().unwrap_or_else(|e| e.into_inner()) = w.addrs[next];
            w.log.push(format!("rotate protocol key -> K{next}"));
            report.count("ops.rotate_protocol_key");
        } else if r < 15 && !w.sent.is_empty() {
            let (desc, payload) = w.sent[rng.gen_range(0..w.sent.len())].clone();
            report.count("ops.replay");
            w.deliver(report, desc, payload, "").await;
        } else if r < 48 {
            let signer = match rng.gen_range(0..100u32) {
                0..=64 => Some(w.current),
                65..=89 => Some((w.current + 1 + rng.gen_range(0..NPROTO - 1)) % NPROTO),
                _ => None,
            };
            let delegate = rng.gen_range(0..NDELEG);
            let exp = *pick(rng, &w.exps);
            let tamper = if chance(rng, 15) { Some(*pick(rng, &["expiration", "public_key", "signature"])) } else { None };
            let (desc, payload) = w.build_delegation(rng, signer, delegate, exp, tamper);
            deliver_keep(w, report, desc, payload, "").await;
        } else {
            let mut reg_exps: Vec<u64> = w.regs.keys().copied().collect();
            reg_exps.sort();
            let exp = if !reg_exps.is_empty() && chance(rng, 75) { *pick(rng, &reg_exps) } else { *pick(rng, &w.exps) };
            let signer = match rng.gen_range(0..100u32) {
                0..=59 => Some(w.regs.get(&exp).map(|r| r.key).unwrap_or_else(|| rng.gen_range(0..NDELEG))),
                60..=84 => Some(rng.gen_range(0..NDELEG)),
                _ => None,
            };
            let n = if chance(rng, 5) { 0 } else { rng.gen_range(1..=3usize) };
            let tamper = if chance(rng, 15) {
                Some(*pick(rng, &["tx_id", "status", "extra_entry", "drop_entry", "expiration", "signature"]))
            } else {
                None
            };
            let (desc, payload) = w.build_batch(rng, signer, exp, n, tamper);
            deliver_keep(w, report, desc, payload, "").await;
        }
    }
}

/// a delegation that expires in a few seconds: use it, wait across the
/// expiration (real time), and check it is dead afterwards
async fn phase_boundary(w: &mut World, report: &Report, rng: &mut StdRng) {
    if w.dead {
        return;
    }
    let base = Tai64::now().0;
    let e = base + rng.gen_range(3..=4u64);
    let d = rng.gen_range(0..NDELEG);
    let other = (d + 1) % NDELEG;
    let cur = w.current;
    let (desc, payload) = w.build_delegation(rng, Some(cur), d, e, None);
    deliver_keep(w, report, desc, payload, "delegation_before_expiry").await;
    let (vdesc, vpayload) = w.build_batch(rng, Some(d), e, 2, None);
    deliver_keep(w, report, vdesc.clone(), vpayload.clone(), "batch_before_expiry").await;
    let (desc, payload) = w.build_batch(rng, Some(other), e, 1, None);
    deliver_keep(w, report, desc, payload, "wrong_key_before_expiry").await;
    // inside the second of the expiration: ambiguous by construction
    if !wait_until_tai(e, Duration::from_millis(rng.gen_range(100..600))) {
        report.inconclusive("C44: wall clock did not reach the expiration");
        return;
    }
    let (desc, payload) = w.build_batch(rng, Some(d), e, 1, None);
    deliver_keep(w, report, desc, payload, "batch_around_expiry").await;
    // clearly after
    if !wait_until_tai(e + 2, Duration::from_millis(rng.gen_range(50..300))) {
        report.inconclusive("C44: wall clock did not pass the expiration");
        return;
    }
    // (a) the very batch that was valid before
    w.deliver(report, vdesc, vpayload, "replay_after_expiry").await;
    // (b) a fresh batch by the (formerly) delegated key
    let (desc, payload) = w.build_batch(rng, Some(d), e, 2, None);
    deliver_keep(w, report, desc, payload, "batch_after_expiry").await;
    // (c) another delegation arrives (housekeeping point of the implementation), then again
    let far = w.exps[0];
    let (desc, payload) = w.build_delegation(rng, Some(w.current), other, far, None);
    deliver_keep(w, report, desc, payload, "").await;
    let (desc, payload) = w.build_batch(rng, Some(d), e, 1, None);
    deliver_keep(w, report, desc, payload, "batch_after_expiry_and_cleanup").await;
    // (d) the expired delegation is gossiped again (its own validity is not judged), still no batch may pass
    let (desc, payload) = w.build_delegation(rng, Some(w.current), d, e, None);
    deliver_keep(w, report, desc, payload, "expired_delegation_regossiped").await;
    let (desc, payload) = w.build_batch(rng, Some(d), e, 2, None);
    deliver_keep(w, report, desc, payload, "batch_after_expired_delegation_regossiped").await;
    report.count("boundary.rounds_completed");
}

pub fn run_round(report: &Report, shard_seed: u64, round: u64, p: &Params) {
    let rt = harness::new_runtime();
    let mut rng = rng_for(shard_seed, &[round]);
    rt.block_on(async {
        let config = Config {
            max_tx_update_subscriptions: 1024,
            subscription_ttl: Duration::from_secs(3600),
            status_cache_ttl: Duration::from_secs(3600),
            metrics: false,
        };
        let protos: Vec<SecretKey> = (0..NPROTO).map(|_| SecretKey::random(&mut rng)).collect();
        let addrs: Vec<Address> = protos.iter().map(|k| Input::owner(&k.public_key())).collect();
        let delegates: Vec<SigningKey> = (0..NDELEG).map(|_| random_signing_key(&mut rng)).collect();
        let svc = match harness::start(config, addrs[0]).await {
            Ok(s) => s,
            Err(e) => {
                report.inconclusive(format!("C44 round {round}: {e}"));
                return;
            }
        };
        let all = match svc.shared.subscribe_all() {
            Ok(s) => s,
            Err(e) => {
                report.inconclusive(format!("C44: subscribe_all failed: {e}"));
                return;
            }
        };
        let pre = svc.shared.preconfirmations_update_listener();
        let base = Tai64::now().0;
        let mut w = World {
            svc,
            all,
            pre,
            protos,
            addrs,
            delegates,
            current: 0,
            regs: HashMap::new(),
            ever: HashSet::new(),
            cur_status: [None; NTX],
            next_serial: 1000,
            next_msg: 1,
            // [0] must stay a far-future value (used by phase_boundary)
            // base+1000/base+1001 are adjacent: a lookup that is not exact on the expiration would mix them up
            exps: vec![base + 1000, base + 1001, base + 2000, base + 500_000, u64::MAX, base - 1000, base - 7, 1, base + 1000, base + 1001],
            sent: Vec::new(),
            log: Vec::new(),
            dead: false,
            selftest: p.selftest,
            perturbed: false,
            shard_seed,
            round,
        };
        phase_random(&mut w, report, &mut rng, p.msgs).await;
        phase_boundary(&mut w, report, &mut rng).await;
        phase_random(&mut w, report, &mut rng, p.msgs / 4).await;
        w.svc.stop().await;
    });
}

pub fn run(args: &Args, report: &Report) {
    let selftest: u32 = args.extra.get("selftest").and_then(|s| s.parse().ok()).unwrap_or(0);
    if let Some(r) = read_replay(args) {
        let shard_seed = r["shard_seed"].as_u64().unwrap_or(0);
        let round = r["round"].as_u64().unwrap_or(0);
        run_round(report, shard_seed, round, &Params { msgs: 1200, selftest });
        report.note(format!("replayed shard_seed={shard_seed} round={round} (wall-clock dependent: best effort)"));
        return;
    }
    let shards = 16usize;
    let rounds: u64 = args.by_tier(3, 40);
    let msgs = 1200usize;
    let rep = report.clone();
    run_shards(report, args, shards, move |_shard, shard_seed| {
        for round in 0..rounds {
            run_round(&rep, shard_seed, round, &Params { msgs, selftest });
        }
    });
    if selftest == 0 {
        report.require("expected.must_accept.batch", 2_000);
        report.require("expected.must_accept.delegation", 2_000);
        report.require("expected.must_reject.batch", 4_000);
        report.require("expected.must_reject.delegation", 2_000);
        report.require("expected.must_reject.reason.expired_batch", 500);
        report.require("expected.must_reject.reason.tampered_batch", 500);
        report.require("expected.must_reject.reason.batch_signed_by_key_not_delegated_for_expiration", 300);
        report.require("expected.must_reject.reason.delegation_signed_by_non_current_protocol_key", 500);
        report.require("ops.rotate_protocol_key", 500);
        report.require("model.delegation_overwritten", 300);
        report.require("boundary.rounds_completed", 32);
        report.require("boundary.batch_before_expiry.judged_must_accept", 20);
        report.require("boundary.replay_after_expiry.judged_must_reject", 32);
        report.require("boundary.batch_after_expired_delegation_regossiped.judged_must_reject", 32);
    }
}
