//! Shared plumbing for the status-manager monitors: the harness-side ports
//! (`P2PSubscriptions`, `ProtocolPublicKey`), service start-up, status
//! builders that stamp every publication with a unique serial number, and the
//! harness' own (property-text derived) notion of a *final* status.

use fuel_core_services::{
    Service,
    ServiceRunner,
    stream::BoxStream,
};
use fuel_core_tx_status_manager::{
    SharedData,
    Task,
    config::Config,
    new_service,
    ports::{
        P2PPreConfirmationGossipData,
        P2PSubscriptions,
    },
    service::ProtocolPublicKey,
};
use fuel_core_types::{
    fuel_tx::{
        Address,
        TxId,
        TxPointer,
    },
    fuel_types::BlockHeight,
    services::{
        p2p::{
            GossipsubMessageAcceptance,
            GossipsubMessageInfo,
        },
        preconfirmation::{
            self,
            Preconfirmation,
            PreconfirmationStatus,
        },
        transaction_status::{
            TransactionStatus,
            statuses,
        },
    },
    tai64::Tai64,
};
use futures::{
    FutureExt,
    Stream,
    StreamExt,
};
use std::sync::{
    Arc,
    Mutex,
};
use tokio::sync::mpsc;
use vcommon::{
    chance,
    rand::rngs::StdRng,
};
use tokio_stream::wrappers::ReceiverStream;

/// The seven status kinds a transaction can be published with.
#[derive(Clone, Copy, Debug, PartialEq, Eq, Hash, PartialOrd, Ord)]
pub enum Kind {
    Submitted,
    PreSuccess,
    PreFailure,
    PreSqueezed,
    Success,
    Failure,
    Squeezed,
}

impl Kind {
    /// Harness-side list of *final* statuses, written from the property text
    /// ("success, failure or squeeze-out"; both squeeze-out flavours terminate a
    /// transaction's life). NOT derived from `TransactionStatus::is_final`.
    pub fn is_final(self) -> bool {
        match self {
            Kind::Success | Kind::Failure | Kind::Squeezed | Kind::PreSqueezed => true,
            Kind::Submitted | Kind::PreSuccess | Kind::PreFailure => false,
        }
    }

    pub fn is_preconfirmation(self) -> bool {
        matches!(self, Kind::PreSuccess | Kind::PreFailure | Kind::PreSqueezed)
    }

    pub fn name(self) -> &'static str {
        match self {
            Kind::Submitted => "Submitted",
            Kind::PreSuccess => "PreconfSuccess",
            Kind::PreFailure => "PreconfFailure",
            Kind::PreSqueezed => "PreconfSqueezedOut",
            Kind::Success => "Success",
            Kind::Failure => "Failure",
            Kind::Squeezed => "SqueezedOut",
        }
    }
}

pub fn tx_id(i: usize) -> TxId {
    TxId::from([(i as u8).wrapping_add(1); 32])
}

fn pointer(serial: u64) -> TxPointer {
    TxPointer::new(BlockHeight::from((serial % 1000) as u32), (serial % 7) as u16)
}

fn fee(serial: u64) -> u64 {
    serial.wrapping_mul(7).wrapping_add(1)
}

/// Build a status of `kind` carrying `serial` (unique per publication).
pub fn make_status(kind: Kind, serial: u64, tx: TxId) -> TransactionStatus {
    match kind {
        Kind::Submitted => TransactionStatus::submitted(Tai64(serial)),
        Kind::Success => TransactionStatus::Success(Arc::new(statuses::Success {
            block_height: BlockHeight::from((serial % 1_000_000) as u32),
            total_gas: serial,
            total_fee: fee(serial),
            ..Default::default()
        })),
        Kind::Failure => TransactionStatus::Failure(Arc::new(statuses::Failure {
            block_height: BlockHeight::from((serial % 1_000_000) as u32),
            total_gas: serial,
            total_fee: fee(serial),
            ..Default::default()
        })),
        Kind::Squeezed => TransactionStatus::squeezed_out(format!("s{serial}"), tx),
        Kind::PreSuccess => {
            TransactionStatus::PreConfirmationSuccess(Arc::new(statuses::PreConfirmationSuccess {
                total_gas: serial,
                total_fee: fee(serial),
                ..Default::default()
            }))
        }
        Kind::PreFailure => {
            TransactionStatus::PreConfirmationFailure(Arc::new(statuses::PreConfirmationFailure {
                total_gas: serial,
                total_fee: fee(serial),
                ..Default::default()
            }))
        }
        Kind::PreSqueezed => TransactionStatus::preconfirmation_squeezed_out(format!("s{serial}")),
    }
}

/// Entry for `SharedData::update_statuses`.
pub fn make_squeezed(serial: u64, tx: TxId) -> statuses::SqueezedOut {
    statuses::SqueezedOut::new(format!("s{serial}"), tx)
}

/// Entry for `SharedData::update_preconfirmations` / gossip batches.
pub fn make_preconf(kind: Kind, serial: u64, tx: TxId) -> Preconfirmation {
    let status = match kind {
        Kind::PreSuccess => PreconfirmationStatus::Success {
            tx_pointer: pointer(serial),
            total_gas: serial,
            total_fee: fee(serial),
            receipts: Arc::new(vec![]),
            outputs: vec![],
        },
        Kind::PreFailure => PreconfirmationStatus::Failure {
            tx_pointer: pointer(serial),
            total_gas: serial,
            total_fee: fee(serial),
            receipts: Arc::new(vec![]),
            outputs: vec![],
        },
        _ => PreconfirmationStatus::SqueezedOut(preconfirmation::SqueezedOut::new(
            format!("s{serial}"),
            tx,
        )),
    };
    Preconfirmation { tx_id: tx, status }
}

/// A status value as the harness can (re)produce it: `preconf_family` values have the
/// content that the preconfirmation route produces, the others the content of
/// `make_status`; re-publishing the same `Val` for the same tx yields an identical
/// `TransactionStatus` whatever route is used.
#[derive(Clone, Debug)]
pub struct Val {
    pub kind: Kind,
    pub serial: u64,
    pub preconf_family: bool,
}

pub fn value_status(v: &Val, tx: usize) -> TransactionStatus {
    if v.preconf_family {
        make_preconf(v.kind, v.serial, tx_id(tx)).status.into()
    } else {
        make_status(v.kind, v.serial, tx_id(tx))
    }
}

pub fn pick_route(rng: &mut StdRng, v: &Val) -> &'static str {
    if v.preconf_family {
        if chance(rng, 60) { "update_preconfirmations" } else { "update_status" }
    } else if v.kind == Kind::Squeezed && chance(rng, 50) {
        "update_statuses"
    } else {
        "update_status"
    }
}

fn parse_reason(reason: &str) -> Option<u64> {
    let r = reason.strip_prefix('s')?;
    let digits: String = r.chars().take_while(|c| c.is_ascii_digit()).collect();
    digits.parse().ok()
}

/// (kind, serial, fee-consistent) of an observed status.
pub fn ident(st: &TransactionStatus) -> (Kind, Option<u64>) {
    fn chk(gas: u64, f: u64) -> Option<u64> {
        if f == fee(gas) { Some(gas) } else { None }
    }
    match st {
        TransactionStatus::Submitted(s) => (Kind::Submitted, Some(s.timestamp.0)),
        TransactionStatus::Success(s) => (Kind::Success, chk(s.total_gas, s.total_fee)),
        TransactionStatus::PreConfirmationSuccess(s) => (Kind::PreSuccess, chk(s.total_gas, s.total_fee)),
        TransactionStatus::SqueezedOut(s) => (Kind::Squeezed, parse_reason(s.reason())),
        TransactionStatus::PreConfirmationSqueezedOut(s) => (Kind::PreSqueezed, parse_reason(&s.reason)),
        TransactionStatus::Failure(s) => (Kind::Failure, chk(s.total_gas, s.total_fee)),
        TransactionStatus::PreConfirmationFailure(s) => (Kind::PreFailure, chk(s.total_gas, s.total_fee)),
    }
}

pub fn ident_str(st: &Option<TransactionStatus>) -> String {
    match st {
        None => "None".to_string(),
        Some(s) => {
            let (k, n) = ident(s);
            match n {
                Some(n) => format!("{}#{n}", k.name()),
                None => format!("{}#?", k.name()),
            }
        }
    }
}

// ---------------------------------------------------------------- ports

pub type Validity = (GossipsubMessageInfo, GossipsubMessageAcceptance);

/// Harness implementation of the P2P port: gossip comes from a channel the
/// harness writes, validity reports go to a channel the harness reads.
pub struct HarnessP2P {
    gossip_rx: Mutex<Option<mpsc::Receiver<P2PPreConfirmationGossipData>>>,
    validity_tx: mpsc::UnboundedSender<Validity>,
}

impl P2PSubscriptions for HarnessP2P {
    type GossipedStatuses = P2PPreConfirmationGossipData;

    fn gossiped_tx_statuses(&self) -> BoxStream<Self::GossipedStatuses> {
        let rx = self
            .gossip_rx
            .lock()
            .unwrap_or_else(|e| e.into_inner())
            .take()
            .expect("gossip stream requested once");
        Box::pin(ReceiverStream::new(rx))
    }

    fn notify_gossip_transaction_validity(
        &self,
        message_info: GossipsubMessageInfo,
        validity: GossipsubMessageAcceptance,
    ) -> anyhow::Result<()> {
        self.validity_tx
            .send((message_info, validity))
            .map_err(|_| anyhow::anyhow!("validity channel closed"))
    }
}

/// Harness implementation of the protocol key port; the harness rotates the
/// address through the shared cell.
pub struct RotatingKey(pub Arc<Mutex<Address>>);

impl ProtocolPublicKey for RotatingKey {
    fn latest_address(&self) -> Address {
        *self.0.lock().unwrap_or_else(|e| e.into_inner())
    }
}

pub struct Svc {
    pub runner: ServiceRunner<Task<RotatingKey, HarnessP2P>>,
    pub shared: SharedData,
    pub gossip_tx: mpsc::Sender<P2PPreConfirmationGossipData>,
    pub validity_rx: mpsc::UnboundedReceiver<Validity>,
    pub key: Arc<Mutex<Address>>,
}

/// Start the real service through its public constructor.
pub async fn start(config: Config, address: Address) -> Result<Svc, String> {
    let (gossip_tx, gossip_rx) = mpsc::channel(64);
    let (validity_tx, validity_rx) = mpsc::unbounded_channel();
    let key = Arc::new(Mutex::new(address));
    let p2p = HarnessP2P {
        gossip_rx: Mutex::new(Some(gossip_rx)),
        validity_tx,
    };
    let runner = new_service(p2p, config, RotatingKey(key.clone()));
    let shared = runner.shared.clone();
    match runner.start_and_await().await {
        Ok(state) if state.started() => {}
        Ok(state) => return Err(format!("service did not start: {state:?}")),
        Err(e) => return Err(format!("service did not start: {e}")),
    }
    Ok(Svc {
        runner,
        shared,
        gossip_tx,
        validity_rx,
        key,
    })
}

impl Svc {
    pub async fn stop(self) {
        let _ = self.runner.stop_and_await().await;
    }
}

// ---------------------------------------------------------------- polling

pub enum Polled<T> {
    Item(T),
    Ended,
    Pending,
}

/// Poll a stream exactly once without blocking and without being subject to
/// tokio's cooperative budget (a budget-induced spurious `Pending` would look
/// like a missing item).
pub fn poll_once<S: Stream + Unpin>(s: &mut S) -> Polled<S::Item> {
    match tokio::task::unconstrained(s.next()).now_or_never() {
        Some(Some(x)) => Polled::Item(x),
        Some(None) => Polled::Ended,
        None => Polled::Pending,
    }
}

pub fn new_runtime() -> tokio::runtime::Runtime {
    tokio::runtime::Builder::new_current_thread()
        .enable_time()
        .start_paused(true)
        .build()
        .expect("runtime")
}
