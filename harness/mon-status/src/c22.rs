//! C22 — status subscriptions deliver statuses in publication order, without
//! duplicates, nothing after the first final status or after stream end;
//! draining subscribers get every status up to and including the first final
//! one and their stream then ends.
//!
//! One *case* = one real `TxStatusManager` service (public constructor) with a
//! seeded history of publications through all three public write routes,
//! subscriptions, reads, drops and clock advances over 3 transaction ids. Every
//! subscriber's received items are recorded at the subscriber end and judged
//! afterwards by `judge`, which knows only the publication log and the
//! property text.

use crate::harness::{
    self,
    Kind,
    Polled,
    Val,
    pick_route,
    value_status,
    ident,
    make_preconf,
    make_squeezed,
    make_status,
    poll_once,
    tx_id,
};
use fuel_core_tx_status_manager::{
    TxStatusMessage,
    TxStatusStream,
    config::Config,
};
use fuel_core_types::{
    fuel_tx::Address,
    services::transaction_status::TransactionStatus,
};
use std::{
    collections::HashMap,
    sync::Arc,
    time::Duration,
};
use tokio::time::Instant;
use vcommon::{
    rand::{
        Rng,
        rngs::StdRng,
    },
    serde_json::{
        Value,
        json,
    },
    *,
};

pub const RULE: &str = "case = one tx-status-manager service (subscription limit 1/2/3/8; subscription ttl 1h / 2.5s / 200ms virtual and status cache ttl 5ms / 40ms / 300ms / 5s, always different from each other, in both orders) \
driven by a seeded history of publications (update_status / update_statuses / update_preconfirmations, single and batched, \
with and without a barrier in between; values are NOT unique: the latest value is re-published identically (1-3 times in a row, by any route, \
also right after a subscriber attached), earlier values come back after resubmission cycles, identical entries appear twice in a batch and \
different txs share identical Submitted values), subscriptions (draining / never reading / reading every k-th op), drops and clock \
advances over 3 tx ids; evaluation = one subscriber stream judged offline against the publication log; a subscriber stream is \
non-trivial (distinct key = behaviour + sequence of received kinds + failed/ended flags + number of owed statuses) if it \
received >= 2 items or received >= 1 item and ended";

pub const ASSUMPTIONS: &[&str] = &[
    "final statuses (harness list, from the property text): Success, Failure, SqueezedOut, PreConfirmationSqueezedOut",
    "a get_status/subscribe round trip is a barrier: the service task handles queued writes before reads (biased select)",
    "completeness is owed only to subscribers that drained before each publication for their tx, inside the subscription ttl and before being dropped; the rest is judged for safety only and counted as excluded.*",
    "only subscription_ttl limits what is owed to a subscriber; status_cache_ttl (always configured to a different value) must not matter to subscribers",
    "subscription success/failure against the limit is recorded, not judged (the property does not state it)",
    "a panic/stop of the service is reported as inconclusive, not as a violation",
];

const NTX: usize = 3;

#[derive(Clone, Copy, Debug, PartialEq, Eq, Hash)]
pub enum Beh {
    Drain,
    Never,
    EveryK(u8),
}

#[derive(Clone, Debug)]
pub struct Pub {
    pub idx: usize,
    pub tx: usize,
    pub kind: Kind,
    pub serial: u64,
    pub route: &'static str,
    /// virtual time of the publication
    pub at: Instant,
    /// exact status expected at the subscriber (known for the direct routes)
    pub full: Option<TransactionStatus>,
}

#[derive(Clone, Debug)]
pub enum Item {
    Status(TransactionStatus),
    Failed,
}

/// Everything recorded at one subscriber end.
#[derive(Clone, Debug)]
pub struct SubRec {
    pub id: usize,
    pub tx: usize,
    pub beh: Beh,
    /// number of publications issued (and handled, subscribe is a barrier) before the subscription
    pub subscribed_at_pub: usize,
    pub items: Vec<Item>,
    pub ended: bool,
    pub items_after_end: u32,
    /// publications with index < complete_until are owed to a draining subscriber
    pub complete_until: usize,
    pub excluded_by: Option<&'static str>,
    pub subscribed_at: Instant,
}

struct Sub {
    rec: SubRec,
    subscribed_at: Instant,
    stream: Option<TxStatusStream>,
    undrained: bool,
    tick: u32,
}

impl Sub {
    fn limit(&mut self, until: usize, why: &'static str) {
        if until < self.rec.complete_until {
            self.rec.complete_until = until;
            if self.rec.excluded_by.is_none() {
                self.rec.excluded_by = Some(why);
            }
        }
    }

    /// read up to `max` items without blocking
    fn read(&mut self, max: usize) {
        let Some(stream) = self.stream.as_mut() else { return };
        for _ in 0..max {
            match poll_once(stream) {
                Polled::Item(m) => {
                    if self.rec.ended {
                        self.rec.items_after_end += 1;
                    }
                    self.rec.items.push(match m {
                        TxStatusMessage::Status(s) => Item::Status(s),
                        TxStatusMessage::FailedStatus => Item::Failed,
                    });
                }
                Polled::Ended => {
                    self.rec.ended = true;
                    break;
                }
                Polled::Pending => break,
            }
        }
    }
}

fn item_str(i: &Item) -> String {
    match i {
        Item::Failed => "FailedStatus".to_string(),
        Item::Status(s) => harness::ident_str(&Some(s.clone())),
    }
}

/// The oracle: judge one subscriber record against the publication log.
/// Publications are NOT assumed to carry unique values: the same status value may
/// be published several times for a tx (and even for different txs), so delivery
/// is judged as an order-preserving matching of the received values into the
/// sequence of publications for the tx since the subscription (greedy earliest
/// match = pointwise minimal, hence complete), and completeness is judged on the
/// sequence of values including repeats.
/// Returns (signature, explanation) pairs.
pub fn judge(sub: &SubRec, pubs: &[Pub], by_serial: &HashMap<u64, Vec<usize>>) -> Vec<(&'static str, String)> {
    let mut v: Vec<(&'static str, String)> = Vec::new();
    // the only publications that may be delivered, in publication order
    let cand: Vec<&Pub> = pubs.iter().filter(|p| p.tx == sub.tx && p.idx >= sub.subscribed_at_pub).collect();
    let first_final_pub = cand.iter().find(|p| p.kind.is_final()).map(|p| p.idx);
    let mut next = 0usize; // first candidate not yet consumed by the matching
    let mut delivered_count: HashMap<u64, usize> = HashMap::new();
    let mut seen_final = false;
    let mut seen_failed = false;
    for (pos, item) in sub.items.iter().enumerate() {
        if seen_final {
            v.push(("item_after_final_status", format!("item {pos} ({}) follows a final status", item_str(item))));
        }
        if seen_failed {
            v.push(("item_after_failed_status", format!("item {pos} ({}) follows FailedStatus", item_str(item))));
        }
        match item {
            Item::Failed => {
                seen_failed = true;
                if sub.beh == Beh::Drain && sub.complete_until == usize::MAX {
                    v.push((
                        "failed_status_for_draining_subscriber",
                        format!("item {pos} is FailedStatus although the subscriber drained before every publication"),
                    ));
                }
            }
            Item::Status(st) => {
                let (kind, serial) = ident(st);
                if kind.is_final() {
                    seen_final = true;
                }
                let Some(serial) = serial else {
                    v.push(("unknown_status_delivered", format!("item {pos} ({}) was never published", item_str(item))));
                    continue;
                };
                let n_delivered = {
                    let c = delivered_count.entry(serial).or_insert(0);
                    *c += 1;
                    *c
                };
                match (next..cand.len()).find(|j| cand[*j].serial == serial) {
                    Some(j) => {
                        let p = cand[j];
                        if p.kind != kind {
                            v.push(("status_kind_altered", format!("item {pos} is {} but publication #{} was {}", item_str(item), p.idx, p.kind.name())));
                        } else if let Some(full) = &p.full {
                            if full != st {
                                v.push(("status_content_altered", format!("item {pos}: delivered {st:?} published {full:?}")));
                            }
                        }
                        if first_final_pub.is_some_and(|f| p.idx > f) {
                            v.push((
                                "status_published_after_first_final",
                                format!(
                                    "item {pos} ({}) can only be publication #{} but the first final status after subscribing was publication #{}",
                                    item_str(item),
                                    p.idx,
                                    first_final_pub.unwrap_or(0)
                                ),
                            ));
                        }
                        next = j + 1;
                    }
                    None => {
                        let published_since = cand.iter().filter(|p| p.serial == serial).count();
                        if published_since > 0 {
                            if n_delivered > published_since {
                                v.push((
                                    "duplicate_status",
                                    format!("item {pos} ({}): value delivered {n_delivered} times but published only {published_since} time(s) since the subscription", item_str(item)),
                                ));
                            } else {
                                v.push((
                                    "out_of_order",
                                    format!("item {pos} ({}) was not published after the publications matched by the previous items", item_str(item)),
                                ));
                            }
                        } else {
                            let elsewhere: Vec<&Pub> = by_serial.get(&serial).map(|l| l.iter().map(|i| &pubs[*i]).collect()).unwrap_or_default();
                            if elsewhere.iter().any(|p| p.tx == sub.tx) {
                                v.push((
                                    "status_published_before_subscription",
                                    format!("item {pos} ({}) was published for this tx only before the subscription (made after {} publications)", item_str(item), sub.subscribed_at_pub),
                                ));
                            } else if let Some(p) = elsewhere.first() {
                                v.push(("status_of_other_transaction", format!("item {pos} ({}) was published for tx{} not tx{}", item_str(item), p.tx, sub.tx)));
                            } else {
                                v.push(("unknown_status_delivered", format!("item {pos} ({}) was never published", item_str(item))));
                            }
                        }
                    }
                }
            }
        }
    }
    if sub.items_after_end > 0 {
        v.push(("item_after_stream_end", format!("{} item(s) read after the stream had ended", sub.items_after_end)));
    }
    if sub.beh == Beh::Drain {
        let mut owed: Vec<&Pub> = Vec::new();
        for p in pubs {
            if p.tx == sub.tx && p.idx >= sub.subscribed_at_pub && p.idx < sub.complete_until {
                owed.push(p);
                if p.kind.is_final() {
                    break;
                }
            }
        }
        // sequence of values, repeats included
        let got: Vec<Option<u64>> = sub
            .items
            .iter()
            .map(|i| match i {
                Item::Status(s) => ident(s).1,
                Item::Failed => None,
            })
            .collect();
        let complete = got.len() >= owed.len() && owed.iter().zip(got.iter()).all(|(p, g)| *g == Some(p.serial));
        if !complete {
            v.push((
                "draining_subscriber_missed_status",
                format!(
                    "owed {:?}, received {:?}",
                    owed.iter().map(|p| format!("{}#{}", p.kind.name(), p.serial)).collect::<Vec<_>>(),
                    sub.items.iter().map(item_str).collect::<Vec<_>>()
                ),
            ));
        }
        if owed.last().is_some_and(|p| p.kind.is_final()) && !sub.ended {
            v.push((
                "stream_not_ended_after_final_status",
                format!("final publication #{} was delivered/owed but the stream is still open", owed.last().map(|p| p.idx).unwrap_or(0)),
            ));
        }
    }
    v
}

fn owed_len(sub: &SubRec, pubs: &[Pub]) -> usize {
    let mut n = 0;
    for p in pubs {
        if p.tx == sub.tx && p.idx >= sub.subscribed_at_pub && p.idx < sub.complete_until {
            n += 1;
            if p.kind.is_final() {
                break;
            }
        }
    }
    n
}

/// harness-side perturbation of an observed record (oracle self-test)
fn perturb(mode: u32, sub: &mut SubRec, pubs: &[Pub]) -> bool {
    let statuses = sub.items.iter().filter(|i| matches!(i, Item::Status(_))).count();
    match mode {
        1 => {
            // swap two adjacent delivered statuses
            if sub.items.len() >= 2 && statuses == sub.items.len() && item_str(&sub.items[0]) != item_str(&sub.items[1]) {
                sub.items.swap(0, 1);
                return true;
            }
            false
        }
        2 => {
            // deliver the first status twice
            if let Some(Item::Status(st)) = sub.items.first() {
                // only a value that was published exactly once for this tx
                let serial = ident(st).1;
                if pubs.iter().filter(|p| p.tx == sub.tx && Some(p.serial) == serial).count() == 1 {
                    let d = sub.items[0].clone();
                    sub.items.insert(1, d);
                    return true;
                }
            }
            false
        }
        3 => {
            // lose the last status of a fully owed draining subscriber
            if sub.beh == Beh::Drain && sub.complete_until == usize::MAX && !sub.items.is_empty() {
                sub.items.pop();
                return true;
            }
            false
        }
        4 => {
            // pretend the stream stayed open after the final status
            if sub.beh == Beh::Drain && sub.ended && owed_len(sub, pubs) > 0 && sub.complete_until == usize::MAX {
                let has_final = sub.items.iter().any(|i| matches!(i, Item::Status(s) if ident(s).0.is_final()));
                if has_final {
                    sub.ended = false;
                    return true;
                }
            }
            false
        }
        5 => {
            // deliver something after the final status
            let has_final = matches!(sub.items.last(), Some(Item::Status(s)) if ident(s).0.is_final());
            if has_final {
                let extra = make_status(Kind::Submitted, 9_999_999, tx_id(sub.tx));
                sub.items.push(Item::Status(extra));
                return true;
            }
            false
        }
        6 => {
            // deliver a status of another transaction
            if let Some(p) = pubs.iter().find(|p| p.tx != sub.tx && p.full.is_some()) {
                sub.items.insert(0, Item::Status(p.full.clone().unwrap()));
                return true;
            }
            false
        }
        7 => {
            // swallow the second of two value-identical back-to-back deliveries
            // ("do not wake subscribers for an unchanged status")
            if sub.beh == Beh::Drain && sub.complete_until == usize::MAX {
                for i in 1..sub.items.len() {
                    if matches!(sub.items[i], Item::Status(_)) && item_str(&sub.items[i]) == item_str(&sub.items[i - 1]) {
                        sub.items.remove(i);
                        return true;
                    }
                }
            }
            false
        }
        _ => false,
    }
}

pub struct Params {
    pub ops: usize,
    pub selftest: u32,
}

fn pick_kind(rng: &mut StdRng, last: Option<Kind>, long_lived: bool) -> Kind {
    if last.is_some_and(|k| k.is_final()) && chance(rng, 55) {
        return Kind::Submitted; // resubmission after a final status
    }
    let r = rng.gen_range(0..100u32);
    if long_lived {
        // transactions that stay in the pool for long: final statuses are rare, so
        // streams get long and lagging subscribers overflow their buffers
        return match r {
            0..=49 => Kind::Submitted,
            50..=71 => Kind::PreSuccess,
            72..=87 => Kind::PreFailure,
            88..=90 => Kind::PreSqueezed,
            91..=93 => Kind::Success,
            94..=96 => Kind::Failure,
            _ => Kind::Squeezed,
        };
    }
    match r {
        0..=29 => Kind::Submitted,
        30..=44 => Kind::PreSuccess,
        45..=54 => Kind::PreFailure,
        55..=61 => Kind::PreSqueezed,
        62..=76 => Kind::Success,
        77..=86 => Kind::Failure,
        _ => Kind::Squeezed,
    }
}

/// Run one case; returns false if the service died (inconclusive).
pub fn run_case(report: &Report, shard_seed: u64, case: u64, p: &Params) {
    let rt = harness::new_runtime();
    let mut rng = rng_for(shard_seed, &[case]);
    rt.block_on(case_body(report, &mut rng, shard_seed, case, p));
}

#[allow(unused_assignments)]
async fn case_body(report: &Report, rng: &mut StdRng, shard_seed: u64, case: u64, p: &Params) {
    let limit = *pick(rng, &[1usize, 2, 3, 3, 8]);
    let long_lived = chance(rng, 35);
    // The two Duration fields of Config are always different, so a mix-up between the
    // subscription ttl and the status cache ttl inside the service shows: exclusions below
    // use ONLY subscription_ttl; status_cache_ttl must never matter to a subscriber.
    // 2.5 s has a sub-second part (a ttl truncated to whole seconds would expire early).
    let (sub_ttl, cache_ttl) = match rng.gen_range(0..100u32) {
        // subscription long-lived, cache short: subscribers outlive many cache ttls
        0..=19 => (Duration::from_secs(3600), Duration::from_millis(40)),
        20..=29 => (Duration::from_secs(3600), Duration::from_millis(5)),
        30..=44 => (Duration::from_millis(2500), Duration::from_millis(40)),
        45..=54 => (Duration::from_millis(2500), Duration::from_millis(300)),
        // subscription short-lived, cache long
        55..=84 => (Duration::from_millis(200), Duration::from_secs(5)),
        _ => (Duration::from_secs(3600), Duration::from_secs(5)),
    };
    let config = Config {
        max_tx_update_subscriptions: limit,
        subscription_ttl: sub_ttl,
        status_cache_ttl: cache_ttl,
        metrics: false,
    };
    let svc = match harness::start(config, Address::zeroed()).await {
        Ok(s) => s,
        Err(e) => {
            report.inconclusive(format!("C22 case {case}: {e}"));
            return;
        }
    };
    report.count(&format!("cases.limit_{limit}"));
    report.count(if long_lived { "cases.final_statuses_rare" } else { "cases.final_statuses_frequent" });
    report.count(&format!("cases.subscription_ttl_{}ms.cache_ttl_{}ms", sub_ttl.as_millis(), cache_ttl.as_millis()));

    let mut pubs: Vec<Pub> = Vec::new();
    let mut by_serial: HashMap<u64, Vec<usize>> = HashMap::new();
    let mut last_val: [Option<Val>; NTX] = [None, None, None];
    let mut values: Vec<Vec<Val>> = vec![Vec::new(); NTX];
    let mut last_submitted: [Option<u64>; NTX] = [None; NTX];
    let mut subs: Vec<Sub> = Vec::new();
    let mut log: Vec<String> = Vec::new();
    let mut last_kind: [Option<Kind>; NTX] = [None; NTX];
    let mut next_serial = 1000u64;
    let mut first_unbarriered: Option<usize> = None;
    let mut dead = false;

    macro_rules! barrier {
        () => {{
            match svc.shared.get_status(tx_id(0)).await {
                Ok(_) => {
                    first_unbarriered = None;
                    for s in subs.iter_mut() {
                        if s.rec.beh == Beh::Drain && s.stream.is_some() {
                            s.read(16);
                            s.undrained = false;
                        }
                    }
                }
                Err(e) => {
                    report.inconclusive(format!("C22 case {case}: service stopped answering: {e}"));
                    dead = true;
                }
            }
        }};
    }

    // one API call publishing `entries` (tx, value, tag) through `route`
    macro_rules! publish_call {
        ($route:expr, $entries:expr) => {{
            let route: &'static str = $route;
            let entries: Vec<(usize, Val, &'static str)> = $entries;
            let mut squeezed = Vec::new();
            let mut preconfs = Vec::new();
            for (tx, val, tag) in entries.iter().cloned() {
                let idx = pubs.len();
                // draining bookkeeping: a publication while the previous one for this
                // tx has not been drained ends the completeness obligation
                for s in subs.iter_mut() {
                    if s.rec.tx == tx && s.rec.beh == Beh::Drain && s.stream.is_some() {
                        if s.undrained {
                            s.limit(idx, "undrained_publication");
                        }
                        s.undrained = true;
                    }
                }
                let full = match route {
                    "update_status" => {
                        let st = value_status(&val, tx);
                        svc.shared.update_status(tx_id(tx), st.clone());
                        Some(st)
                    }
                    "update_statuses" => {
                        let sq = make_squeezed(val.serial, tx_id(tx));
                        squeezed.push((tx_id(tx), sq.clone()));
                        Some(TransactionStatus::SqueezedOut(Arc::new(sq)))
                    }
                    _ => {
                        preconfs.push(make_preconf(val.kind, val.serial, tx_id(tx)));
                        None
                    }
                };
                if first_unbarriered.is_none() {
                    first_unbarriered = Some(idx);
                }
                by_serial.entry(val.serial).or_default().push(idx);
                pubs.push(Pub { idx, tx, kind: val.kind, serial: val.serial, route, at: Instant::now(), full });
                last_kind[tx] = Some(val.kind);
                if val.kind == Kind::Submitted {
                    last_submitted[tx] = Some(val.serial);
                }
                if !values[tx].iter().any(|v| v.serial == val.serial) {
                    values[tx].push(val.clone());
                }
                log.push(format!("pub#{idx} tx{tx} {}#{} via {route} ({tag})", val.kind.name(), val.serial));
                report.count(&format!("published.{}", val.kind.name()));
                report.count(&format!("published.value.{tag}"));
                last_val[tx] = Some(val);
            }
            if !squeezed.is_empty() {
                svc.shared.update_statuses(squeezed);
            }
            if !preconfs.is_empty() {
                svc.shared.update_preconfirmations(preconfs);
            }
            report.count(&format!("ops.publish.{route}"));
            if entries.len() > 1 {
                report.count("ops.publish.batched");
            }
            if chance(rng, 88) {
                barrier!();
            } else {
                report.count("ops.publish.without_barrier");
                log.push("(no barrier)".to_string());
            }
        }};
    }

    for _op in 0..p.ops {
        if dead {
            break;
        }
        // lagging readers
        for s in subs.iter_mut() {
            if let Beh::EveryK(k) = s.rec.beh {
                s.tick += 1;
                if s.tick % (k as u32) == 0 {
                    s.read(1);
                }
            }
        }
        let r = rng.gen_range(0..100u32);
        if r < 62 {
            // ---- publication(s)
            let tx0 = rng.gen_range(0..NTX);
            let m = rng.gen_range(0..100u32);
            if m < 14 && last_val[tx0].is_some() {
                // the very same value again, possibly several times in a row, by any route
                let val = last_val[tx0].clone().unwrap();
                let times = if chance(rng, 35) { rng.gen_range(2..=3usize) } else { 1 };
                for _ in 0..times {
                    if dead {
                        break;
                    }
                    let route = pick_route(rng, &val);
                    publish_call!(route, vec![(tx0, val.clone(), "repeat_of_latest")]);
                }
            } else if m < 20 && values[tx0].len() >= 2 {
                // a value this tx had earlier (e.g. the same Submitted after a resubmission cycle)
                let l = values[tx0].len();
                let val = values[tx0][l - 1 - rng.gen_range(0..l.min(4))].clone();
                let route = pick_route(rng, &val);
                publish_call!(route, vec![(tx0, val, "repeat_of_earlier")]);
            } else {
                let n = if chance(rng, 18) { rng.gen_range(2..=4usize) } else { 1 };
                let kind0 = pick_kind(rng, last_kind[tx0], long_lived);
                let mut serial0 = next_serial;
                next_serial += 1;
                let mut tag0 = "fresh";
                if kind0 == Kind::Submitted && chance(rng, 10) {
                    // two transactions submitted in the same second carry identical values
                    let other = (tx0 + 1 + rng.gen_range(0..NTX - 1)) % NTX;
                    if let Some(s) = last_submitted[other] {
                        serial0 = s;
                        tag0 = "value_shared_with_other_tx";
                    }
                }
                let val0 = Val { kind: kind0, serial: serial0, preconf_family: kind0.is_preconfirmation() && chance(rng, 60) };
                // the route is decided by the first entry; extra entries share it
                let route = pick_route(rng, &val0);
                let mut entries: Vec<(usize, Val, &'static str)> = vec![(tx0, val0, tag0)];
                if route != "update_status" {
                    for _ in 1..n {
                        if chance(rng, 25) {
                            // the identical entry twice in one batch
                            let (tx, val, _) = entries.last().cloned().unwrap();
                            entries.push((tx, val, "repeat_in_batch"));
                            continue;
                        }
                        let tx = if chance(rng, 35) { tx0 } else { rng.gen_range(0..NTX) };
                        let kind = if route == "update_statuses" {
                            Kind::Squeezed
                        } else {
                            *pick(rng, &[Kind::PreSuccess, Kind::PreFailure, Kind::PreSqueezed])
                        };
                        let serial = next_serial;
                        next_serial += 1;
                        entries.push((tx, Val { kind, serial, preconf_family: route == "update_preconfirmations" }, "fresh"));
                    }
                }
                publish_call!(route, entries);
            }
        } else if r < 80 {
            // ---- subscribe (a read request: also a barrier)
            let tx = rng.gen_range(0..NTX);
            let beh = match rng.gen_range(0..100u32) {
                0..=54 => Beh::Drain,
                55..=74 => Beh::Never,
                _ => Beh::EveryK(rng.gen_range(2..=4u8)),
            };
            let res = svc.shared.subscribe(tx_id(tx)).await;
            // everything sent before has been handled now
            first_unbarriered = None;
            for s in subs.iter_mut() {
                if s.rec.beh == Beh::Drain && s.stream.is_some() {
                    s.read(16);
                    s.undrained = false;
                }
            }
            match res {
                Ok(stream) => {
                    let id = subs.len();
                    log.push(format!("sub#{id} tx{tx} {beh:?} after {} pubs", pubs.len()));
                    report.count("ops.subscribe.ok");
                    report.count(&format!("subscribers.{}", match beh {
                        Beh::Drain => "draining",
                        Beh::Never => "never_reading",
                        Beh::EveryK(_) => "every_kth",
                    }));
                    subs.push(Sub {
                        rec: SubRec {
                            id,
                            tx,
                            beh,
                            subscribed_at_pub: pubs.len(),
                            items: Vec::new(),
                            ended: false,
                            items_after_end: 0,
                            complete_until: usize::MAX,
                            excluded_by: None,
                            subscribed_at: Instant::now(),
                        },
                        subscribed_at: Instant::now(),
                        stream: Some(stream),
                        undrained: false,
                        tick: 0,
                    });
                    if last_val[tx].is_some() && chance(rng, 35) {
                        // the subscriber has just attached; the cache already holds this very value
                        let val = last_val[tx].clone().unwrap();
                        let route = pick_route(rng, &val);
                        publish_call!(route, vec![(tx, val, "repeat_right_after_subscribe")]);
                    }
                }
                Err(e) => {
                    let msg = e.to_string();
                    if msg.contains("Maximum number of subscriptions") {
                        report.count("ops.subscribe.rejected_limit");
                        log.push(format!("sub tx{tx} rejected (limit {limit})"));
                    } else {
                        report.inconclusive(format!("C22 case {case}: subscribe failed: {msg}"));
                        dead = true;
                    }
                }
            }
        } else if r < 84 {
            // ---- drop a subscriber
            let live: Vec<usize> = subs.iter().enumerate().filter(|(_, s)| s.stream.is_some()).map(|(i, _)| i).collect();
            if !live.is_empty() {
                let i = *pick(rng, &live);
                let until = first_unbarriered.unwrap_or(pubs.len());
                subs[i].limit(until, "dropped");
                subs[i].stream = None;
                log.push(format!("drop sub#{i}"));
                report.count("ops.drop_subscriber");
            }
        } else if r < 91 {
            // ---- advance the (paused) clock; barrier first so that every queued
            // write is handled at the time the model thinks it was
            barrier!();
            if dead {
                break;
            }
            let d = *pick(rng, &[1u64, 10, 60, 100, 150, 700]);
            tokio::time::advance(Duration::from_millis(d)).await;
            let now = Instant::now();
            for s in subs.iter_mut() {
                if now.duration_since(s.subscribed_at) >= sub_ttl {
                    s.limit(pubs.len(), "subscription_ttl");
                }
            }
            log.push(format!("advance {d}ms"));
            report.count("ops.advance");
        } else {
            barrier!();
            report.count("ops.barrier");
        }
        for _ in 0..rng.gen_range(0..3u32) {
            tokio::task::yield_now().await;
        }
    }

    if !dead {
        barrier!();
    }
    // final drain of everybody, then make sure ended streams stay ended
    for s in subs.iter_mut() {
        s.read(16);
        if s.rec.ended {
            s.read(1);
            s.read(1);
        }
    }
    svc.stop().await;
    if dead {
        return;
    }

    // ------------------------------------------------------------ judge
    let mut perturbed = false;
    for s in subs.iter() {
        let mut rec = s.rec.clone();
        if p.selftest > 0 && !perturbed && perturb(p.selftest, &mut rec, &pubs) {
            perturbed = true;
            report.count("selftest.perturbed_records");
        }
        report.eval();
        let owed = if rec.beh == Beh::Drain { owed_len(&rec, &pubs) } else { 0 };
        let kinds: Vec<&'static str> = rec
            .items
            .iter()
            .map(|i| match i {
                Item::Failed => "FailedStatus",
                Item::Status(st) => ident(st).0.name(),
            })
            .collect();
        for k in &kinds {
            report.count(&format!("delivered.{k}"));
        }
        if rec.ended {
            report.count("streams.ended");
        }
        for w in rec.items.windows(2) {
            if matches!(w[0], Item::Status(_)) && item_str(&w[0]) == item_str(&w[1]) {
                report.count(if rec.beh == Beh::Drain {
                    "delivered.identical_value_back_to_back.draining"
                } else {
                    "delivered.identical_value_back_to_back.lagging"
                });
            }
        }
        if rec.beh == Beh::Drain {
            // owed statuses published when the subscription was already older than the
            // status cache ttl (but inside the subscription ttl): must still arrive
            let mut beyond = 0u64;
            for pb in pubs.iter() {
                if pb.tx == rec.tx && pb.idx >= rec.subscribed_at_pub && pb.idx < rec.complete_until {
                    if pb.at.duration_since(rec.subscribed_at) >= cache_ttl {
                        beyond += 1;
                    }
                    if pb.kind.is_final() {
                        break;
                    }
                }
            }
            report.add("draining.owed_statuses_beyond_cache_ttl_inside_subscription_ttl", beyond);
            report.add("draining.owed_statuses", owed as u64);
            match rec.excluded_by {
                None => report.count("draining.fully_judged"),
                Some(why) => report.count(&format!("excluded.completeness_limited_by.{why}")),
            }
            if owed > 0 && rec.ended && kinds.last().is_some_and(|k| *k != "FailedStatus") {
                report.count("draining.ended_after_final");
            }
        } else if kinds.last() == Some(&"FailedStatus") {
            report.count("lagging.ended_with_failed_status");
        }
        let failed = kinds.contains(&"FailedStatus");
        if rec.items.len() >= 2 || (!rec.items.is_empty() && rec.ended) {
            report.distinct(&(format!("{:?}", rec.beh), kinds.clone(), failed, rec.ended, owed));
        }
        let verdicts = judge(&rec, &pubs, &by_serial);
        if report.wants_sample() && rec.items.len() >= 3 {
            report.sample(json!({
                "subscriber": format!("sub#{} tx{} {:?} subscribed after {} publications", rec.id, rec.tx, rec.beh, rec.subscribed_at_pub),
                "publications_for_tx": pubs.iter().filter(|p| p.tx == rec.tx && p.idx >= rec.subscribed_at_pub).take(12)
                    .map(|p| format!("#{} {}#{} via {}", p.idx, p.kind.name(), p.serial, p.route)).collect::<Vec<_>>(),
                "received": rec.items.iter().map(item_str).collect::<Vec<_>>(),
                "ended": rec.ended,
                "owed": owed,
            }));
        }
        for (sig, why) in verdicts {
            let signature = if p.selftest > 0 { format!("selftest:{sig}") } else { sig.to_string() };
            let detail = format!(
                "subscriber sub#{} (tx{}, {:?}, subscribed after {} publications, limit {limit}, subscription ttl {:?}): {why}; received {:?} ended={}; publications for tx since subscription: {:?}",
                rec.id,
                rec.tx,
                rec.beh,
                rec.subscribed_at_pub,
                sub_ttl,
                rec.items.iter().map(item_str).collect::<Vec<_>>(),
                rec.ended,
                pubs.iter().filter(|p| p.tx == rec.tx && p.idx >= rec.subscribed_at_pub).take(16)
                    .map(|p| format!("#{} {}#{} via {}", p.idx, p.kind.name(), p.serial, p.route)).collect::<Vec<_>>(),
            );
            let ops: Vec<Value> = log.iter().take(400).map(|l| json!(l)).collect();
            report.violation(signature, detail, json!({"shard_seed": shard_seed, "case": case, "ops_per_case": p.ops, "subscriber": rec.id, "ops": ops}));
        }
    }
    report.add("subscribers.total", subs.len() as u64);
    report.add("publications.total", pubs.len() as u64);
}

pub fn run(args: &Args, report: &Report) {
    let selftest: u32 = args.extra.get("selftest").and_then(|s| s.parse().ok()).unwrap_or(0);
    if let Some(r) = read_replay(args) {
        let shard_seed = r["shard_seed"].as_u64().unwrap_or(0);
        let case = r["case"].as_u64().unwrap_or(0);
        let ops = r["ops_per_case"].as_u64().unwrap_or(300) as usize;
        run_case(report, shard_seed, case, &Params { ops, selftest });
        report.note(format!("replayed shard_seed={shard_seed} case={case}"));
        return;
    }
    let shards = 16usize;
    let cases: u64 = args.by_tier(100, 1500);
    let ops: usize = args.by_tier(400, 600);
    let rep = report.clone();
    run_shards(report, args, shards, move |_shard, shard_seed| {
        for case in 0..cases {
            run_case(&rep, shard_seed, case, &Params { ops, selftest });
        }
    });
    if selftest == 0 {
        report.require("subscribers.draining", 10_000);
        report.require("draining.fully_judged", 2000);
        report.require("draining.ended_after_final", 10_000);
        report.require("draining.owed_statuses", 50_000);
        report.require("draining.owed_statuses_beyond_cache_ttl_inside_subscription_ttl", 5_000);
        report.require("lagging.ended_with_failed_status", 60);
        report.require("ops.subscribe.rejected_limit", 100);
        report.require("ops.publish.update_statuses", 500);
        report.require("ops.publish.update_preconfirmations", 2000);
        report.require("ops.publish.batched", 2000);
        report.require("excluded.completeness_limited_by.subscription_ttl", 20);
        report.require("delivered.PreconfSqueezedOut", 200);
        report.require("delivered.Submitted", 2000);
        report.require("published.value.repeat_of_latest", 5_000);
        report.require("published.value.repeat_of_earlier", 2_000);
        report.require("published.value.repeat_right_after_subscribe", 1_000);
        report.require("published.value.repeat_in_batch", 300);
        report.require("published.value.value_shared_with_other_tx", 300);
        report.require("delivered.identical_value_back_to_back.draining", 2_000);
    }
}
