//! The harness's own model of the world around the pool: the chain, which
//! transactions were handed out / preconfirmed and are not settled yet, which
//! left the pool, and one recorded step of a history.

use crate::{
    snap::{
        Out,
        Snap,
        TxInfo,
    },
    world::{
        ChainState,
        ChainView,
        CoinFields,
        SinkEvent,
    },
};
use fuel_core_txpool::error::Error as PoolError;
use fuel_core_types::{
    fuel_tx::{
        ContractId,
        Output,
        TxId,
        UtxoId,
    },
    fuel_types::Nonce,
    services::txpool::ArcPoolTx,
};
use std::{
    collections::{
        BTreeMap,
        BTreeSet,
    },
    sync::Arc,
};

#[derive(Clone, Debug)]
pub struct Cfg {
    pub name: &'static str,
    pub utxo_validation: bool,
    pub max_txs: usize,
    pub max_gas: u64,
    pub max_bytes: usize,
    pub chain: usize,
}

#[derive(Clone, Copy, Debug, PartialEq, Eq)]
pub enum Focus {
    C16,
    C17,
    C18,
    C19,
    C20,
    C21,
}

#[derive(Clone, Copy, Debug, PartialEq, Eq)]
pub enum PKind {
    Success,
    Failure,
    Squeezed,
}

#[derive(Clone)]
pub enum Op {
    Insert {
        tx: ArcPoolTx,
        info: Arc<TxInfo>,
        why: &'static str,
    },
    Extract {
        min_price: u64,
        max_gas: u64,
        max_txs: u16,
        max_size: u32,
        excluded: Vec<ContractId>,
    },
    Block {
        height: u32,
        txs: Vec<Arc<TxInfo>>,
    },
    Preconf {
        id: TxId,
        kind: PKind,
        height: u32,
        /// the oracle's view of "height <= canonical tip"
        stale: bool,
        outputs: Option<Vec<(UtxoId, Output)>>,
    },
    Expire {
        ids: Vec<TxId>,
    },
    ExpirePending,
}

impl Op {
    pub fn kind(&self) -> &'static str {
        match self {
            Op::Insert { .. } => "insert",
            Op::Extract { .. } => "extract",
            Op::Block { .. } => "block",
            Op::Preconf {
                kind: PKind::Squeezed,
                ..
            } => "preconf_squeezed",
            Op::Preconf { stale: true, .. } => "preconf_stale",
            Op::Preconf { .. } => "preconf",
            Op::Expire { .. } => "expire",
            Op::ExpirePending => "expire_pending",
        }
    }
}

#[derive(Clone, Debug)]
pub enum Outcome {
    Inserted,
    Pending,
    Rejected(PoolError),
}

impl Outcome {
    pub fn short(&self) -> String {
        match self {
            Outcome::Inserted => "Inserted".into(),
            Outcome::Pending => "Pending".into(),
            Outcome::Rejected(e) => format!("Rejected({e})"),
        }
    }

    pub fn is_inserted(&self) -> bool {
        matches!(self, Outcome::Inserted)
    }
}

/// One executed operation with everything observed around it.
#[derive(Clone)]
pub struct Step {
    pub op: Op,
    pub before: Snap,
    pub after: Snap,
    pub insert: Option<Outcome>,
    pub followups: Vec<(TxId, Outcome)>,
    pub extracted: Vec<Arc<TxInfo>>,
    pub sink: Vec<SinkEvent>,
    /// chain as the pool could see it while the operation ran (may lag the import)
    pub chain: ChainState,
    /// the chain as it really is
    pub truth: ChainState,
    /// the view shown to the pool lags behind the last block import
    pub lagging: bool,
}

impl Step {
    /// ids that leave the pool in this step by inclusion (handed out for a block,
    /// committed by the imported block, preconfirmed as executed)
    pub fn inclusion_exits(&self) -> BTreeSet<TxId> {
        match &self.op {
            Op::Extract { .. } => self.extracted.iter().map(|t| t.id).collect(),
            Op::Block { txs, .. } => txs.iter().map(|t| t.id).collect(),
            Op::Preconf {
                id,
                kind: PKind::Success | PKind::Failure,
                stale: false,
                ..
            } => [*id].into_iter().collect(),
            _ => BTreeSet::new(),
        }
    }
}

#[derive(Clone, Debug, PartialEq, Eq)]
pub enum UState {
    Extracted,
    Tentative { height: u32 },
}

/// A transaction that left the pool towards a block (or was preconfirmed by a
/// producer) and is neither committed nor skipped/rolled back yet.
#[derive(Clone)]
pub struct Unsettled {
    pub info: Arc<TxInfo>,
    pub state: UState,
    /// the pool saw the transaction itself (so it knows its inputs)
    pub knows_inputs: bool,
    /// outputs that may be spendable before settlement
    pub coin_outputs: BTreeMap<u16, CoinFields>,
    pub contracts: BTreeSet<ContractId>,
    pub seq: u64,
}

#[derive(Clone, Copy, Debug, PartialEq, Eq, PartialOrd, Ord)]
pub enum Key {
    Tx(TxId),
    Coin(UtxoId),
    Msg(Nonce),
}

/// The harness's picture of a cache that keeps the `cap` most recently written
/// keys. It exists only to LABEL an admission of a handed-out input as "the
/// bounded cache had (as good as) dropped the entry" or not; verdicts never depend
/// on it.
pub struct LabelCache {
    cap: usize,
    /// oldest first
    order: Vec<Key>,
    evicted: BTreeSet<Key>,
    /// removed by an explicit unspend (skip / rollback) and not written since
    released: BTreeSet<Key>,
    /// every key ever written
    pub ever: BTreeSet<Key>,
}

/// the order in which a block's transactions reach the cache is not observable
/// (hash-set iteration); keys this close to eviction count as dropped
const SLACK: usize = 2;

impl LabelCache {
    pub fn new(cap: usize) -> Self {
        LabelCache {
            cap,
            order: Vec::new(),
            evicted: BTreeSet::new(),
            released: BTreeSet::new(),
            ever: BTreeSet::new(),
        }
    }

    pub fn put(&mut self, k: Key) {
        self.order.retain(|x| x != &k);
        self.order.push(k);
        self.evicted.remove(&k);
        self.released.remove(&k);
        self.ever.insert(k);
        while self.order.len() > self.cap {
            let old = self.order.remove(0);
            self.evicted.insert(old);
        }
    }

    pub fn pop(&mut self, k: &Key) {
        self.order.retain(|x| x != k);
        self.released.insert(*k);
    }

    pub fn released(&self, k: &Key) -> bool {
        self.released.contains(k)
    }

    pub fn forgot(&self, k: &Key) -> bool {
        if self.evicted.contains(k) {
            return true;
        }
        match self.order.iter().position(|x| x == k) {
            Some(p) => self.order.len() + SLACK > self.cap && p < SLACK,
            None => false,
        }
    }
}

pub struct Model {
    pub chain: ChainView,
    pub unsettled: BTreeMap<TxId, Unsettled>,
    /// left the pool without inclusion (or was skipped) and has not been admitted since
    pub removed: BTreeSet<TxId>,
    /// preconfirmed, then omitted by the canonical block; not admitted since
    pub rolled_back: BTreeSet<TxId>,
    /// received only stale preconfirmations (never pooled/extracted/committed)
    pub stale_preconf: BTreeSet<TxId>,
    pub store: BTreeMap<TxId, (ArcPoolTx, Arc<TxInfo>)>,
    /// generated but never submitted (parents of pending-pool candidates)
    pub reserve: Vec<TxId>,
    /// every key the pool was told is (maybe) spent, in order; used only to LABEL
    /// a finding as "cache under pressure" or not, never for a verdict
    pub cache: LabelCache,
    /// pooled transactions one of whose pooled dependents was committed (by a block
    /// or preconfirmation) while they stayed pooled: the pool does not re-compute
    /// their cumulative subtree tip/gas in that case
    pub stale_stats: BTreeSet<TxId>,
    /// inputs spent by committed transactions the pool itself knew (pooled or handed
    /// out at import): the pool must refuse them even if its storage view lags
    pub known_spent: BTreeSet<Key>,
    /// admissions not judged because the input had two claimants and the other one
    /// was skipped / rolled back (see `claim_released`)
    pub excluded_released: std::sync::atomic::AtomicU64,
    /// subset: the committed transaction was pooled and never extracted locally
    pub pooled_committed_inputs: BTreeSet<Key>,
    pub seq: u64,
}

impl Model {
    pub fn new(chain: ChainView, cache_capacity: usize) -> Self {
        Model {
            chain,
            unsettled: BTreeMap::new(),
            removed: BTreeSet::new(),
            rolled_back: BTreeSet::new(),
            stale_preconf: BTreeSet::new(),
            store: BTreeMap::new(),
            reserve: Vec::new(),
            cache: LabelCache::new(cache_capacity),
            stale_stats: BTreeSet::new(),
            known_spent: BTreeSet::new(),
            excluded_released: Default::default(),
            pooled_committed_inputs: BTreeSet::new(),
            seq: 0,
        }
    }

    /// the unsettled transaction (known to the pool) that holds this coin as input
    pub fn handed_out_coin(&self, u: &UtxoId) -> Option<TxId> {
        self.unsettled
            .values()
            .find(|x| x.knows_inputs && x.info.coins.iter().any(|(v, _)| v == u))
            .map(|x| x.info.id)
    }

    pub fn handed_out_msg(&self, n: &Nonce) -> Option<TxId> {
        self.unsettled
            .values()
            .find(|x| x.knows_inputs && x.info.msgs.iter().any(|m| &m.nonce == n))
            .map(|x| x.info.id)
    }

    pub fn unsettled_coin(&self, u: &UtxoId) -> Option<CoinFields> {
        self.unsettled
            .get(u.tx_id())
            .and_then(|x| x.coin_outputs.get(&u.output_index()).copied())
    }

    pub fn unsettled_contract(&self, c: &ContractId) -> bool {
        self.unsettled.values().any(|x| x.contracts.contains(c))
    }

    /// The pool lets a transaction spend an output of a POOLED parent without looking
    /// at its spent marks, so an input can end up claimed by two unsettled
    /// transactions (e.g. one preconfirmed, one handed out later). When one of them
    /// is skipped or rolled back the pool releases the mark by key. Such keys are
    /// outside the handed-out rule's domain; the admissions are counted, not judged.
    pub fn claim_released(&self, k: &Key) -> bool {
        if self.cache.released(k) {
            self.excluded_released
                .fetch_add(1, std::sync::atomic::Ordering::Relaxed);
            true
        } else {
            false
        }
    }

    /// Can the harness show that the bounded spent-input cache has dropped `k`
    /// (or is within `SLACK` writes of dropping it)? Used only to LABEL findings.
    pub fn cache_forgot(&self, k: &Key) -> bool {
        self.cache.forgot(k)
    }

    pub fn input_keys(t: &TxInfo) -> Vec<Key> {
        t.spend_order
            .iter()
            .map(|r| match r {
                crate::snap::InRef::Coin(u) => Key::Coin(*u),
                crate::snap::InRef::Msg(n) => Key::Msg(*n),
            })
            .collect()
    }

    /// the pool handed `t` out for a block
    pub fn spend_extracted(&mut self, t: &TxInfo) {
        for k in Self::input_keys(t) {
            self.cache.put(k);
        }
        self.cache.put(Key::Tx(t.id));
    }

    /// `t` was committed by a block or preconfirmed as executed
    pub fn spend_committed(&mut self, t: &TxInfo, pooled_before: bool, handed_out_before: bool) {
        self.cache.put(Key::Tx(t.id));
        if handed_out_before {
            for k in Self::input_keys(t) {
                self.cache.put(k);
            }
        }
        if pooled_before {
            for k in Self::input_keys(t) {
                self.cache.put(k);
            }
            self.cache.put(Key::Tx(t.id));
        }
    }

    /// `t` was skipped or its preconfirmation rolled back
    pub fn unspend(&mut self, t: &TxInfo, with_inputs: bool) {
        self.cache.pop(&Key::Tx(t.id));
        if with_inputs {
            for k in Self::input_keys(t) {
                self.cache.pop(&k);
            }
        }
    }

    pub fn static_outputs(t: &TxInfo) -> (BTreeMap<u16, CoinFields>, BTreeSet<ContractId>) {
        let mut coins = BTreeMap::new();
        let mut contracts = BTreeSet::new();
        for (i, o) in t.outputs.iter().enumerate() {
            match o {
                Out::Coin(f) => {
                    coins.insert(i as u16, *f);
                }
                Out::ContractCreated(c) => {
                    contracts.insert(*c);
                }
                _ => {}
            }
        }
        (coins, contracts)
    }
}

#[derive(Clone, Debug)]
pub struct Finding {
    pub sig: String,
    pub detail: String,
}

pub fn finding(sig: impl Into<String>, detail: impl Into<String>) -> Finding {
    Finding {
        sig: sig.into(),
        detail: detail.into(),
    }
}
