//! C16: the pool never holds conflicting transactions; reported count / gas /
//! size equal the sums over the transactions it holds. Judged on the snapshot
//! taken after every operation.

use crate::{
    model::{
        Finding,
        Step,
        finding,
    },
    snap::{
        Snap,
        conflict,
    },
};

pub fn check_snapshot(s: &Snap, after_op: &str) -> Vec<Finding> {
    let mut out = Vec::new();
    for a in &s.anomalies {
        out.push(finding(
            "c16 read_accessors_inconsistent",
            format!("after {after_op}: {a}"),
        ));
    }
    let txs: Vec<_> = s.txs.values().collect();
    for i in 0..txs.len() {
        for j in i + 1..txs.len() {
            if let Some(why) = conflict(txs[i], txs[j]) {
                let kind = why.split(' ').next().unwrap_or("?").to_string();
                out.push(finding(
                    format!("c16 conflicting_txs_pooled kind={kind}"),
                    format!(
                        "after {after_op}: pooled {} and {} conflict on {why}",
                        txs[i].short(),
                        txs[j].short()
                    ),
                ));
            }
        }
    }
    let sums = s.sums();
    for (name, rep, acc, sum) in [
        ("count", s.published.count, s.accounting.count, sums.count),
        ("gas", s.published.gas, s.accounting.gas, sums.gas),
        ("size", s.published.size, s.accounting.size, sums.size),
    ] {
        if rep != sum {
            out.push(finding(
                format!("c16 published_stats_mismatch field={name}"),
                format!(
                    "after {after_op}: TxPoolStats.{name} = {rep}, sum over the {} pooled txs = {sum}",
                    sums.count
                ),
            ));
        }
        if acc != sum {
            out.push(finding(
                format!("c16 accounting_mismatch field={name}"),
                format!(
                    "after {after_op}: pool accounting {name} = {acc}, sum over the {} pooled txs = {sum}",
                    sums.count
                ),
            ));
        }
    }
    out
}

pub fn check(step: &Step) -> Vec<Finding> {
    check_snapshot(&step.after, step.op.kind())
}
