//! Snapshot of the pool taken through the hook's read accessors, and everything
//! the oracles derive from transaction CONTENTS: conflicts and the dependency
//! graph. Nothing here looks at the pool's own graph or collision indexes.

use crate::world::CoinFields;
use fuel_core_types::{
    fuel_tx::{
        BlobId,
        ContractId,
        Input,
        Output,
        TxId,
        UtxoId,
        field::BlobId as _,
    },
    fuel_types::Nonce,
    services::txpool::PoolTransaction,
};
use std::{
    collections::{
        BTreeMap,
        BTreeSet,
    },
    sync::Arc,
};

#[derive(Clone, Debug, PartialEq, Eq)]
pub enum Out {
    Coin(CoinFields),
    Change,
    Variable,
    Contract,
    ContractCreated(ContractId),
}

#[derive(Clone, Debug)]
pub struct MsgUse {
    pub nonce: Nonce,
    pub sender: fuel_core_types::fuel_tx::Address,
    pub recipient: fuel_core_types::fuel_tx::Address,
    pub amount: u64,
    /// payload of a `MessageData*` input (empty for `MessageCoin*`)
    pub data: Vec<u8>,
}

/// The contents of one transaction as the oracles see it.
#[derive(Clone, Debug)]
pub struct TxInfo {
    pub id: TxId,
    pub kind: &'static str,
    pub tip: u64,
    pub max_gas: u64,
    pub size: usize,
    pub max_gas_price: u64,
    pub coins: Vec<(UtxoId, CoinFields)>,
    pub msgs: Vec<MsgUse>,
    pub contracts: Vec<ContractId>,
    pub outputs: Vec<Out>,
    pub blob: Option<BlobId>,
    /// input variants in input order (evidence / coverage)
    pub variants: Vec<&'static str>,
    /// spendable inputs (coins, messages) in the transaction's real input order
    pub spend_order: Vec<InRef>,
}

#[derive(Clone, Copy, Debug, PartialEq, Eq)]
pub enum InRef {
    Coin(UtxoId),
    Msg(Nonce),
}

impl TxInfo {
    pub fn of(tx: &PoolTransaction) -> TxInfo {
        let mut coins = Vec::new();
        let mut msgs = Vec::new();
        let mut contracts = Vec::new();
        let mut variants = Vec::new();
        let mut spend_order = Vec::new();
        for i in tx.inputs() {
            if i.is_coin() {
                spend_order.push(InRef::Coin(*i.utxo_id().expect("coin")));
            } else if i.is_message() {
                spend_order.push(InRef::Msg(*i.nonce().expect("message")));
            }
            variants.push(match i {
                Input::CoinSigned(_) => "coin_signed",
                Input::CoinPredicate(_) => "coin_predicate",
                Input::Contract(_) => "contract",
                Input::MessageCoinSigned(_) => "message_coin_signed",
                Input::MessageCoinPredicate(_) => "message_coin_predicate",
                Input::MessageDataSigned(_) => "message_data_signed",
                Input::MessageDataPredicate(_) => "message_data_predicate",
            });
            match i {
                Input::CoinSigned(_) | Input::CoinPredicate(_) => {
                    coins.push((
                        *i.utxo_id().expect("coin"),
                        CoinFields {
                            owner: *i.input_owner().expect("coin"),
                            amount: i.amount().expect("coin"),
                            asset: *i.asset_id(&Default::default()).expect("coin"),
                        },
                    ));
                }
                Input::Contract(c) => contracts.push(c.contract_id),
                _ => {
                    msgs.push(MsgUse {
                        nonce: *i.nonce().expect("message"),
                        sender: *i.sender().expect("message"),
                        recipient: *i.recipient().expect("message"),
                        amount: i.amount().expect("message"),
                        data: i.input_data().map(|d| d.to_vec()).unwrap_or_default(),
                    });
                }
            }
        }
        let outputs = tx
            .outputs()
            .iter()
            .map(|o| match o {
                Output::Coin {
                    to,
                    amount,
                    asset_id,
                } => Out::Coin(CoinFields {
                    owner: *to,
                    amount: *amount,
                    asset: *asset_id,
                }),
                Output::Change { .. } => Out::Change,
                Output::Variable { .. } => Out::Variable,
                Output::Contract(_) => Out::Contract,
                Output::ContractCreated { contract_id, .. } => {
                    Out::ContractCreated(*contract_id)
                }
            })
            .collect();
        let (kind, blob) = match tx {
            PoolTransaction::Script(..) => ("script", None),
            PoolTransaction::Create(..) => ("create", None),
            PoolTransaction::Upgrade(..) => ("upgrade", None),
            PoolTransaction::Upload(..) => ("upload", None),
            PoolTransaction::Blob(c, _) => ("blob", Some(*c.transaction().blob_id())),
        };
        TxInfo {
            id: tx.id(),
            kind,
            tip: tx.tip(),
            max_gas: tx.max_gas(),
            size: tx.metered_bytes_size(),
            max_gas_price: tx.max_gas_price(),
            coins,
            msgs,
            contracts,
            outputs,
            blob,
            variants,
            spend_order,
        }
    }

    pub fn created_contracts(&self) -> impl Iterator<Item = ContractId> + '_ {
        self.outputs.iter().filter_map(|o| match o {
            Out::ContractCreated(c) => Some(*c),
            _ => None,
        })
    }

    pub fn coin_output(&self, idx: u16) -> Option<&Out> {
        self.outputs.get(idx as usize)
    }

    pub fn short(&self) -> String {
        format!(
            "{}:{}(tip {} gas {} size {} in {}c/{}m/{}k out {})",
            short_id(&self.id),
            self.kind,
            self.tip,
            self.max_gas,
            self.size,
            self.coins.len(),
            self.msgs.len(),
            self.contracts.len(),
            self.outputs.len()
        )
    }
}

pub fn short_id(id: &TxId) -> String {
    let h = hex::encode(id.as_ref());
    if h.starts_with("7a") && h[2..56].bytes().all(|b| b == b'0') {
        format!("t{}", u32::from_str_radix(&h[56..], 16).unwrap_or(0))
    } else {
        format!("r{}", &h[..8])
    }
}

pub fn short_utxo(u: &UtxoId) -> String {
    let h = hex::encode(u.tx_id().as_ref());
    if h.starts_with("a0") {
        format!("g{}:{}", &h[2..4], u.output_index())
    } else {
        format!("{}:{}", short_id(u.tx_id()), u.output_index())
    }
}

/// Why two transactions conflict (C16's relation), from contents only.
pub fn conflict(a: &TxInfo, b: &TxInfo) -> Option<String> {
    for (u, _) in &a.coins {
        if b.coins.iter().any(|(v, _)| v == u) {
            return Some(format!("coin {}", short_utxo(u)));
        }
    }
    for m in &a.msgs {
        if b.msgs.iter().any(|n| n.nonce == m.nonce) {
            return Some(format!("message {}", hex::encode(&m.nonce.as_ref()[28..])));
        }
    }
    for c in a.created_contracts() {
        if b.created_contracts().any(|d| d == c) {
            return Some("contract creation".to_string());
        }
    }
    if let (Some(x), Some(y)) = (&a.blob, &b.blob)
        && x == y
    {
        return Some("blob".to_string());
    }
    None
}

#[derive(Clone, Copy, Debug, Default, PartialEq, Eq)]
pub struct Stats {
    pub count: u64,
    pub gas: u64,
    pub size: u64,
}

#[derive(Clone, Default)]
pub struct Snap {
    pub txs: BTreeMap<TxId, Arc<TxInfo>>,
    pub published: Stats,
    pub accounting: Stats,
    /// inconsistencies between the read accessors themselves
    pub anomalies: Vec<String>,
    /// For a pooled transaction with a contract input: which pooled transaction
    /// created that contract at the moment the user was admitted (recorded by the
    /// harness from what was pooled then, never read from the pool's graph). A
    /// contract can also exist on chain or through a handed-out transaction, so a
    /// creator that shows up later is not a dependency of an earlier user.
    pub contract_parents: BTreeMap<TxId, BTreeMap<ContractId, TxId>>,
}

impl Snap {
    pub fn sums(&self) -> Stats {
        let mut s = Stats::default();
        for t in self.txs.values() {
            s.count += 1;
            s.gas += t.max_gas;
            s.size += t.size as u64;
        }
        s
    }

    pub fn ids(&self) -> BTreeSet<TxId> {
        self.txs.keys().copied().collect()
    }

    pub fn contains(&self, id: &TxId) -> bool {
        self.txs.contains_key(id)
    }
}

/// Dependency graph derived from contents: edge a -> b iff b spends a coin output
/// of a, or uses a contract created by a (both in `txs`).
#[derive(Default, Clone)]
pub struct Graph {
    pub parents: BTreeMap<TxId, BTreeSet<TxId>>,
    pub children: BTreeMap<TxId, BTreeSet<TxId>>,
}

impl Graph {
    pub fn of(snap: &Snap) -> Graph {
        let by_id = &snap.txs;
        let mut g = Graph::default();
        for t in by_id.values() {
            g.parents.entry(t.id).or_default();
            g.children.entry(t.id).or_default();
        }
        let add = |g: &mut Graph, a: TxId, b: TxId| {
            if a != b {
                g.parents.entry(b).or_default().insert(a);
                g.children.entry(a).or_default().insert(b);
            }
        };
        for b in by_id.values() {
            for (u, _) in &b.coins {
                if let Some(a) = by_id.get(u.tx_id())
                    && matches!(a.coin_output(u.output_index()), Some(Out::Coin(_)))
                {
                    add(&mut g, a.id, b.id);
                }
            }
            if let Some(m) = snap.contract_parents.get(&b.id) {
                for c in &b.contracts {
                    if let Some(a) = m.get(c)
                        && let Some(ai) = by_id.get(a)
                        && ai.created_contracts().any(|x| &x == c)
                    {
                        add(&mut g, *a, b.id);
                    }
                }
            }
        }
        g
    }

    pub fn descendants(&self, x: &TxId) -> BTreeSet<TxId> {
        let mut seen = BTreeSet::new();
        let mut stack: Vec<TxId> = self
            .children
            .get(x)
            .map(|c| c.iter().copied().collect())
            .unwrap_or_default();
        while let Some(n) = stack.pop() {
            if seen.insert(n)
                && let Some(c) = self.children.get(&n)
            {
                stack.extend(c.iter().copied());
            }
        }
        seen
    }

    /// descendants of `x` along paths that do not pass through `blocked` nodes
    pub fn descendants_avoiding(&self, x: &TxId, blocked: &BTreeSet<TxId>) -> BTreeSet<TxId> {
        let mut seen = BTreeSet::new();
        let mut stack: Vec<TxId> = vec![*x];
        while let Some(n) = stack.pop() {
            if let Some(c) = self.children.get(&n) {
                for d in c {
                    if !blocked.contains(d) && seen.insert(*d) {
                        stack.push(*d);
                    }
                }
            }
        }
        seen
    }

    pub fn ancestors(&self, x: &TxId) -> BTreeSet<TxId> {
        let mut seen = BTreeSet::new();
        let mut stack: Vec<TxId> = vec![*x];
        while let Some(n) = stack.pop() {
            if let Some(c) = self.parents.get(&n) {
                for d in c {
                    if seen.insert(*d) {
                        stack.push(*d);
                    }
                }
            }
        }
        seen
    }

    pub fn edge_count(&self) -> usize {
        self.children.values().map(|c| c.len()).sum()
    }

    /// Topological order, or `None` when the graph has a cycle.
    pub fn topo(&self) -> Option<Vec<TxId>> {
        let mut indeg: BTreeMap<TxId, usize> =
            self.parents.iter().map(|(k, v)| (*k, v.len())).collect();
        let mut ready: Vec<TxId> = indeg
            .iter()
            .filter(|(_, d)| **d == 0)
            .map(|(k, _)| *k)
            .collect();
        let mut out = Vec::new();
        while let Some(n) = ready.pop() {
            out.push(n);
            if let Some(cs) = self.children.get(&n) {
                for c in cs {
                    let d = indeg.get_mut(c).expect("node");
                    *d -= 1;
                    if *d == 0 {
                        ready.push(*c);
                    }
                }
            }
        }
        (out.len() == indeg.len()).then_some(out)
    }

    /// Longest path, counted in nodes (requires acyclic).
    pub fn longest_chain(&self, topo: &[TxId]) -> usize {
        let mut len: BTreeMap<TxId, usize> = BTreeMap::new();
        let mut best = 0;
        for n in topo {
            let l = 1 + self
                .parents
                .get(n)
                .map(|ps| ps.iter().map(|p| len.get(p).copied().unwrap_or(0)).max().unwrap_or(0))
                .unwrap_or(0);
            len.insert(*n, l);
            best = best.max(l);
        }
        best
    }

    /// A pair (ancestor, node) connected by two different paths (requires acyclic).
    pub fn diamond(&self, topo: &[TxId]) -> Option<(TxId, TxId)> {
        // paths[n][a] = number of distinct paths from a to n (capped at 2)
        let mut paths: BTreeMap<TxId, BTreeMap<TxId, u8>> = BTreeMap::new();
        for n in topo {
            let mut mine: BTreeMap<TxId, u8> = BTreeMap::new();
            if let Some(ps) = self.parents.get(n) {
                for p in ps {
                    let e = mine.entry(*p).or_insert(0);
                    *e = (*e + 1).min(2);
                    if let Some(up) = paths.get(p) {
                        for (a, k) in up {
                            let e = mine.entry(*a).or_insert(0);
                            *e = (*e + *k).min(2);
                        }
                    }
                }
            }
            if let Some((a, _)) = mine.iter().find(|(_, k)| **k >= 2) {
                return Some((*a, *n));
            }
            paths.insert(*n, mine);
        }
        None
    }
}

/// cross-multiplied comparison a_tip/a_gas > b_tip/b_gas
pub fn ratio_gt(a_tip: u64, a_gas: u64, b_tip: u64, b_gas: u64) -> bool {
    (a_tip as u128) * (b_gas as u128) > (b_tip as u128) * (a_gas as u128)
}
