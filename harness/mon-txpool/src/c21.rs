//! C21: offline checker over the status-sink log of one operation. Every
//! transaction that leaves the pool for a non-inclusion cause is reported as
//! squeezed out exactly once; handed-out / committed transactions are never
//! reported as squeezed out by the pool.

use crate::{
    model::{
        Finding,
        Model,
        Step,
        UState,
        finding,
    },
    snap::short_id,
    world::SinkEvent,
};
use std::collections::BTreeSet;

pub fn check(step: &Step, model: &Model) -> Vec<Finding> {
    let mut out = Vec::new();
    let opk = step.op.kind();
    let incl = step.inclusion_exits();
    // residency: ids currently in the pool while we walk through the log
    let mut open: BTreeSet<_> = step.before.ids();
    let mut reported: BTreeSet<_> = BTreeSet::new();
    for e in &step.sink {
        match e {
            SinkEvent::Submitted(id) => {
                open.insert(*id);
            }
            SinkEvent::SqueezedOut(id, reason) => {
                if incl.contains(id) {
                    out.push(finding(
                        "c21 included_tx_reported_squeezed_out",
                        format!(
                            "{opk}: {} leaves the pool by inclusion in this step but the pool reported it squeezed out ({reason})",
                            short_id(id)
                        ),
                    ));
                    open.remove(id);
                    reported.insert(*id);
                    continue;
                }
                if open.remove(id) {
                    reported.insert(*id);
                    continue;
                }
                if reported.contains(id) {
                    out.push(finding(
                        "c21 squeezed_out_reported_twice",
                        format!(
                            "{opk}: {} reported squeezed out more than once for one exit ({reason})",
                            short_id(id)
                        ),
                    ));
                    continue;
                }
                let sig = match model.unsettled.get(id).map(|u| &u.state) {
                    Some(UState::Extracted) => "c21 handed_out_tx_reported_squeezed_out",
                    Some(UState::Tentative { .. }) => {
                        "c21 preconfirmed_tx_reported_squeezed_out"
                    }
                    None if step.truth.txs.contains(id) => {
                        "c21 committed_tx_reported_squeezed_out"
                    }
                    None => "c21 squeezed_out_report_for_tx_not_in_pool",
                };
                out.push(finding(
                    sig,
                    format!(
                        "{opk}: pool reported {} squeezed out ({reason}) but it was not in the pool",
                        short_id(id)
                    ),
                ));
            }
            SinkEvent::Other(..) => {}
        }
    }
    let after = step.after.ids();
    for x in open.difference(&after) {
        if incl.contains(x) {
            continue;
        }
        out.push(finding(
            format!("c21 exit_not_reported op={opk}"),
            format!(
                "{opk}: {} left the pool without inclusion and no squeezed-out report was sent",
                short_id(x)
            ),
        ));
    }
    for x in after.difference(&open) {
        if reported.contains(x) {
            out.push(finding(
                "c21 pooled_tx_reported_squeezed_out",
                format!(
                    "{opk}: {} is still pooled but was reported squeezed out",
                    short_id(x)
                ),
            ));
        }
    }
    out
}

pub fn nontrivial(step: &Step) -> bool {
    let incl = step.inclusion_exits();
    step.before
        .txs
        .keys()
        .any(|x| !step.after.contains(x) && !incl.contains(x))
}
