//! C20: reconciliation with canonical blocks and preconfirmations.
//!
//! Judged here: the effects visible right at the block import / preconfirmation
//! step, and resubmission of rolled-back transactions. "Inputs of committed txs
//! are unspendable", "withdrawn preconfirmed outputs are unspendable" and "a
//! stale preconfirmation announces nothing" are probed by later inserts of the
//! same history and judged by the admission oracle (c19.rs), which attaches the
//! C20 signature to those findings.

use crate::{
    model::{
        Cfg,
        Finding,
        Model,
        Op,
        Outcome,
        PKind,
        Step,
        UState,
        finding,
    },
    snap::{
        Graph,
        short_id,
        short_utxo,
    },
};
use fuel_core_txpool::error::Error as PoolError;
use std::collections::BTreeSet;

pub fn check(step: &Step, model: &Model, cfg: &Cfg) -> Vec<Finding> {
    let mut out = Vec::new();
    match &step.op {
        Op::Block { height, txs } => {
            let in_block: BTreeSet<_> = txs.iter().map(|t| t.id).collect();
            for t in txs {
                if step.after.contains(&t.id) {
                    out.push(finding(
                        "c20 committed_tx_still_pooled",
                        format!(
                            "block {height} includes {} but it is still pooled after process_block",
                            short_id(&t.id)
                        ),
                    ));
                }
            }
            let g = Graph::of(&step.before);
            for (id, u) in &model.unsettled {
                let UState::Tentative { height: h } = u.state else {
                    continue;
                };
                if h > *height || in_block.contains(id) {
                    continue;
                }
                // `id` was preconfirmed for a height <= this block and is absent from it
                let mut roots: Vec<(_, &'static str)> = Vec::new();
                for t in step.before.txs.values() {
                    if t.coins.iter().any(|(utxo, _)| utxo.tx_id() == id) {
                        roots.push((t.id, "coin"));
                    }
                }
                for c in &u.contracts {
                    let other_source = step.truth.contracts.contains(c)
                        || step
                            .after
                            .txs
                            .values()
                            .any(|p| p.created_contracts().any(|x| &x == c))
                        || step
                            .before
                            .txs
                            .values()
                            .any(|p| p.created_contracts().any(|x| &x == c));
                    if other_source {
                        continue;
                    }
                    for t in step.before.txs.values() {
                        if t.contracts.contains(c) {
                            roots.push((t.id, "contract"));
                        }
                    }
                }
                for (r, kind) in roots {
                    let mut all = g.descendants_avoiding(&r, &in_block);
                    all.insert(r);
                    for d in all {
                        if step.after.contains(&d) && !in_block.contains(&d) {
                            out.push(finding(
                                format!("c20 rollback_dependent_survived kind={kind}"),
                                format!(
                                    "{} was preconfirmed for height {h}, block {height} omits it, but {} (depends on its {kind} output via {}) is still pooled",
                                    short_id(id),
                                    short_id(&d),
                                    short_id(&r)
                                ),
                            ));
                        }
                    }
                }
            }
        }
        Op::Preconf {
            id,
            stale: true,
            kind: PKind::Success | PKind::Failure,
            height,
            ..
        } => {
            let changed = step.before.ids() != step.after.ids()
                || step.before.published != step.after.published
                || step.before.accounting != step.after.accounting
                || !step.sink.is_empty()
                || !step.followups.is_empty();
            if changed {
                out.push(finding(
                    "c20 stale_preconfirmation_changed_pool",
                    format!(
                        "preconfirmation of {} for height {height} <= canonical tip {} changed the pool: ids {:?} -> {:?}, status events {}, follow-up inserts {}",
                        short_id(id),
                        step.truth.height,
                        step.before.ids().iter().map(short_id).collect::<Vec<_>>(),
                        step.after.ids().iter().map(short_id).collect::<Vec<_>>(),
                        step.sink.len(),
                        step.followups.len()
                    ),
                ));
            }
        }
        Op::Insert { info, .. } => {
            // a rolled-back transaction may be submitted again
            if cfg.utxo_validation
                && model.rolled_back.contains(&info.id)
                && let Some(Outcome::Rejected(e)) = &step.insert
            {
                if e.is_duplicate_tx()
                    && !step.before.contains(&info.id)
                    && !step.truth.txs.contains(&info.id)
                    && !step
                        .before
                        .txs
                        .values()
                        .any(|k| k.coins.iter().any(|(u, _)| u.tx_id() == &info.id))
                {
                    out.push(finding(
                        "c20 rolled_back_tx_resubmission_rejected reason=duplicate_id",
                        format!(
                            "{} was preconfirmed, omitted by the canonical block, and its resubmission is rejected: {e}",
                            info.short()
                        ),
                    ));
                }
                let spent = match e {
                    PoolError::UtxoInputWasAlreadySpent(u) => {
                        (step.truth.coins.contains_key(u)
                            && model.handed_out_coin(u).is_none()
                            && info.coins.iter().any(|(v, _)| v == u))
                        .then(|| short_utxo(u))
                    }
                    PoolError::MessageInputWasAlreadySpent(n) => {
                        (step.truth.messages.contains_key(n)
                            && model.handed_out_msg(n).is_none()
                            && info.msgs.iter().any(|m| &m.nonce == n))
                        .then(|| format!("message {}", hex::encode(&n.as_ref()[28..])))
                    }
                    _ => None,
                };
                if let Some(what) = spent {
                    out.push(finding(
                        "c20 rolled_back_tx_resubmission_rejected reason=input_still_marked_spent",
                        format!(
                            "{} was rolled back; resubmission rejected because its own input {what} is still marked spent although it is on chain and no unsettled tx holds it",
                            info.short()
                        ),
                    ));
                }
            }
        }
        _ => {}
    }
    out
}

pub fn nontrivial(step: &Step, model: &Model) -> bool {
    match &step.op {
        Op::Block { height, txs } => {
            let in_block: BTreeSet<_> = txs.iter().map(|t| t.id).collect();
            txs.iter().any(|t| step.before.contains(&t.id))
                || model.unsettled.iter().any(|(id, u)| {
                    matches!(u.state, UState::Tentative { height: h } if h <= *height)
                        && !in_block.contains(id)
                })
        }
        Op::Preconf { stale: true, .. } => true,
        Op::Insert { info, .. } => model.rolled_back.contains(&info.id),
        _ => false,
    }
}
