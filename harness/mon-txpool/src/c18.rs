//! C18: what the pool hands out for a block respects the constraints, is
//! conflict-free, lists parents before children, is ordered by the pool's
//! documented priority among transactions executable at the same time, and none
//! of it remains pooled.
//!
//! Priority: the pool documents and implements the key `(tip + 1) / max_gas`
//! (the `+1` makes zero-tip transactions order by gas). The oracle uses exactly
//! that ratio; it deliberately does not check plain `tip / max_gas`.

use crate::{
    model::{
        Finding,
        Op,
        Step,
        finding,
    },
    snap::{
        Graph,
        conflict,
        ratio_gt,
        short_id,
    },
};
use std::collections::{
    BTreeMap,
    BTreeSet,
};

pub fn check(step: &Step) -> Vec<Finding> {
    let mut out = Vec::new();
    let Op::Extract {
        min_price,
        max_gas,
        max_txs,
        max_size,
        excluded,
    } = &step.op
    else {
        return out;
    };
    let ex = &step.extracted;
    let desc = format!(
        "constraints(min_price {min_price}, max_gas {max_gas}, max_txs {max_txs}, max_size {max_size}, excluded {}) -> [{}]",
        excluded.len(),
        ex.iter().map(|t| t.short()).collect::<Vec<_>>().join(", ")
    );

    let gas: u128 = ex.iter().map(|t| t.max_gas as u128).sum();
    if gas > *max_gas as u128 {
        out.push(finding(
            "c18 gas_limit_exceeded",
            format!("extracted max_gas sum {gas} > {max_gas}; {desc}"),
        ));
    }
    let size: u128 = ex.iter().map(|t| t.size as u128).sum();
    if size > *max_size as u128 {
        out.push(finding(
            "c18 block_size_exceeded",
            format!("extracted size sum {size} > {max_size}; {desc}"),
        ));
    }
    if ex.len() > *max_txs as usize {
        out.push(finding(
            "c18 tx_count_exceeded",
            format!("extracted {} txs > {max_txs}; {desc}", ex.len()),
        ));
    }
    let mut seen = BTreeSet::new();
    for t in ex {
        if t.max_gas_price < *min_price {
            out.push(finding(
                "c18 below_minimal_gas_price",
                format!(
                    "{} has max_gas_price {} < {min_price}; {desc}",
                    short_id(&t.id),
                    t.max_gas_price
                ),
            ));
        }
        if t.contracts.iter().any(|c| excluded.contains(c)) {
            out.push(finding(
                "c18 excluded_contract_touched",
                format!("{} uses an excluded contract; {desc}", short_id(&t.id)),
            ));
        }
        if !seen.insert(t.id) {
            out.push(finding(
                "c18 extracted_twice",
                format!("{} listed twice; {desc}", short_id(&t.id)),
            ));
        }
        if !step.before.contains(&t.id) {
            out.push(finding(
                "c18 extracted_tx_was_not_pooled",
                format!("{} was not pooled before; {desc}", short_id(&t.id)),
            ));
        }
        if step.after.contains(&t.id) {
            out.push(finding(
                "c18 extracted_tx_still_pooled",
                format!("{} is still pooled after extraction; {desc}", short_id(&t.id)),
            ));
        }
    }
    for i in 0..ex.len() {
        for j in i + 1..ex.len() {
            if ex[i].id != ex[j].id
                && let Some(why) = conflict(&ex[i], &ex[j])
            {
                out.push(finding(
                    "c18 conflicting_txs_extracted",
                    format!(
                        "{} and {} conflict on {why}; {desc}",
                        short_id(&ex[i].id),
                        short_id(&ex[j].id)
                    ),
                ));
            }
        }
    }

    // parents first; pass numbers
    let g = Graph::of(&step.before);
    let pos: BTreeMap<_, _> = ex.iter().enumerate().map(|(i, t)| (t.id, i)).collect();
    let mut pass: BTreeMap<_, usize> = BTreeMap::new();
    let mut order_ok = true;
    for (i, t) in ex.iter().enumerate() {
        let mut p_max = 0;
        if let Some(ps) = g.parents.get(&t.id) {
            for p in ps {
                match pos.get(p) {
                    None => {
                        order_ok = false;
                        out.push(finding(
                            "c18 parent_not_extracted",
                            format!(
                                "{} extracted while its pooled parent {} was not; {desc}",
                                short_id(&t.id),
                                short_id(p)
                            ),
                        ));
                    }
                    Some(j) if *j > i => {
                        order_ok = false;
                        out.push(finding(
                            "c18 child_before_parent",
                            format!(
                                "child {} at {i}, parent {} at {j}; {desc}",
                                short_id(&t.id),
                                short_id(p)
                            ),
                        ));
                    }
                    Some(_) => p_max = p_max.max(pass.get(p).copied().unwrap_or(0)),
                }
            }
        }
        pass.insert(t.id, p_max + 1);
    }

    // among transactions executable at the same time (same pass): non-increasing
    // (tip+1)/max_gas in output order
    if order_ok {
        let mut last: BTreeMap<usize, &crate::snap::TxInfo> = BTreeMap::new();
        for t in ex {
            let p = pass[&t.id];
            if let Some(prev) = last.get(&p)
                && t.max_gas > 0
                && prev.max_gas > 0
                && ratio_gt(
                    t.tip.saturating_add(1),
                    t.max_gas,
                    prev.tip.saturating_add(1),
                    prev.max_gas,
                )
            {
                out.push(finding(
                    "c18 priority_order_violated",
                    format!(
                        "{} (tip {} gas {}) comes after {} (tip {} gas {}) although both were executable in pass {p} and its (tip+1)/max_gas is higher; {desc}",
                        short_id(&t.id),
                        t.tip,
                        t.max_gas,
                        short_id(&prev.id),
                        prev.tip,
                        prev.max_gas
                    ),
                ));
            }
            last.insert(p, t);
        }
    }
    out
}

pub fn nontrivial(step: &Step) -> bool {
    matches!(step.op, Op::Extract { .. }) && step.extracted.len() >= 2
}
