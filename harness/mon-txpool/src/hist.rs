//! History driver: builds the real pool worker (hook H1) with harness ports,
//! generates one hostile operation after another, executes it synchronously,
//! snapshots the pool through the read accessors and keeps the harness model up
//! to date.

use crate::{
    model::*,
    snap::{
        Graph,
        Out,
        Snap,
        Stats,
        TxInfo,
        short_id,
    },
    txgen::{
        self,
        CoinIn,
        Kind,
        Meta,
        MsgIn,
        TxFactory,
        TxSpec,
    },
    world::{
        ChainProvider,
        ChainState,
        ChainView,
        CoinFields,
        MsgFields,
        Sink,
    },
};
use fuel_core_txpool::{
    Constraints,
    config::{
        Config,
        PoolLimits,
    },
    verif_hooks::{
        VerifInsertOutcome,
        VerifPool,
    },
};
use fuel_core_types::{
    blockchain::{
        block::Block,
        consensus::Sealed,
    },
    fuel_tx::{
        AssetId,
        ContractId,
        Output,
        Transaction,
        TxId,
        TxPointer,
        UtxoId,
    },
    fuel_types::{
        BlockHeight,
        Nonce,
    },
    services::{
        block_importer::ImportResult,
        executor::{
            TransactionExecutionResult,
            TransactionExecutionStatus,
        },
        transaction_status::{
            PreConfirmationStatus,
            statuses,
        },
        txpool::ArcPoolTx,
    },
};
use std::{
    collections::{
        BTreeMap,
        BTreeSet,
        VecDeque,
    },
    ops::Deref,
    sync::Arc,
    time::Duration,
};
use vcommon::{
    catch,
    chance,
    rand::{
        Rng,
        rngs::StdRng,
        seq::SliceRandom,
    },
};

pub fn tiny_cfg(rng: &mut StdRng, utxo_validation: bool) -> Cfg {
    // one of the three limits is made the binding one (sometimes several)
    let which = rng.gen_range(0..4);
    Cfg {
        name: "tiny",
        utxo_validation,
        max_txs: *[4usize, 6, 8].choose(rng).expect("nonempty"),
        max_gas: if which == 0 || which == 3 {
            rng.gen_range(12..=30)
        } else {
            1_000
        },
        max_bytes: if which == 1 || which == 3 {
            rng.gen_range(1500..=3000)
        } else {
            100_000
        },
        chain: rng.gen_range(3..=6),
    }
}

pub fn default_cfg(rng: &mut StdRng, utxo_validation: bool) -> Cfg {
    let d = Config::default();
    Cfg {
        name: "default",
        utxo_validation,
        max_txs: d.pool_limits.max_txs,
        max_gas: d.pool_limits.max_gas,
        max_bytes: d.pool_limits.max_bytes_size,
        chain: if chance(rng, 50) {
            rng.gen_range(3..=6)
        } else {
            d.max_txs_chain_count
        },
    }
}

fn genesis_utxo(i: usize) -> UtxoId {
    let mut b = [0u8; 32];
    b[0] = 0xA0;
    b[1] = i as u8;
    UtxoId::new(b.into(), 0)
}

fn nonce(i: usize) -> Nonce {
    let mut b = [0u8; 32];
    b[31] = i as u8;
    b.into()
}

const N_MSGS: usize = 9;
const N_DATA_FROM: usize = 4;

/// Things the generator wants to try soon (probes after reconciliation steps).
#[derive(Clone)]
enum Todo {
    Resubmit(TxId, &'static str),
    SpendOutputOf(TxId, &'static str),
    SpendInputOf(TxId, &'static str),
}

pub struct Hist {
    pub cfg: Cfg,
    pub focus: Focus,
    pool: VerifPool<ChainView, Sink>,
    sink: Arc<Sink>,
    pub model: Model,
    fac: TxFactory,
    pub rng: StdRng,
    pub snap: Snap,
    next_id: u32,
    pub log: Vec<String>,
    todo: VecDeque<Todo>,
    /// operations the environment must perform next (a producer that skipped a
    /// transaction also skips the handed-out transactions depending on it)
    forced: VecDeque<Op>,
    /// ids ever handed to the pool (insert / preconfirmation / block)
    pub seen: BTreeSet<TxId>,
    spent_fields: BTreeMap<UtxoId, CoinFields>,
    pub counters: BTreeMap<String, u64>,
    /// see `Snap::contract_parents`
    contract_parents: BTreeMap<TxId, BTreeMap<ContractId, TxId>>,
    /// fewer draining operations: pools grow larger
    calm: bool,
    /// remaining operations during which the storage view keeps lagging
    lag_left: usize,
    /// may a block contain a pooled transaction together with its pooled parent?
    pub parent_child_blocks: bool,
    /// do not generate submissions that hit an entry the bounded spent-input cache
    /// has already dropped (finding S6); keeps histories running to their end
    avoid_forgotten: bool,
}

pub enum Ran {
    Step(Box<Step>),
    Panic(String, String),
}

impl Hist {
    pub fn new(cfg: Cfg, focus: Focus, mut rng: StdRng, parent_child_blocks: bool) -> Self {
        let calm = chance(&mut rng, 50);
        let avoid_forgotten = focus != Focus::C19 || chance(&mut rng, 50);
        let chain = ChainView::default();
        chain.with(|c| {
            for i in 0..28 {
                c.coins.insert(
                    genesis_utxo(i),
                    CoinFields {
                        owner: txgen::owner(rng.gen_range(0..txgen::N_OWNERS)),
                        amount: *[10u64, 20, 30].choose(&mut rng).expect("nonempty"),
                        asset: AssetId::BASE,
                    },
                );
            }
            // nonces 0..N_DATA_FROM: coin messages; N_DATA_FROM..N_MSGS-1: data messages;
            // the last nonce never exists
            for i in 0..N_MSGS - 1 {
                c.messages.insert(
                    nonce(i),
                    MsgFields {
                        sender: txgen::owner(0),
                        recipient: txgen::owner(rng.gen_range(0..txgen::N_OWNERS)),
                        amount: 20,
                        data: if i >= N_DATA_FROM {
                            vec![i as u8; 4]
                        } else {
                            vec![]
                        },
                    },
                );
            }
            for i in 0..txgen::N_GENESIS_CONTRACTS {
                c.contracts.insert(txgen::genesis_contract(i));
            }
            c.blobs.insert(txgen::blob_id(txgen::N_BLOBS - 1));
        });
        let config = Config {
            utxo_validation: cfg.utxo_validation,
            max_txs_chain_count: cfg.chain,
            pool_limits: PoolLimits {
                max_txs: cfg.max_txs,
                max_gas: cfg.max_gas,
                max_bytes_size: cfg.max_bytes,
            },
            // the expiry tick of the pending pool is an explicit operation here
            pending_pool_tx_ttl: Duration::ZERO,
            ..Config::default()
        };
        let sink = Arc::new(Sink::new());
        let pool = VerifPool::new(
            config,
            Arc::new(ChainProvider(chain.clone())),
            sink.clone(),
            BlockHeight::new(0),
        );
        let cache_capacity = cfg.max_txs + 1;
        let mut h = Hist {
            cfg,
            focus,
            pool,
            sink,
            model: Model::new(chain, cache_capacity),
            fac: TxFactory::new(),
            rng,
            snap: Snap::default(),
            next_id: 1,
            log: Vec::new(),
            todo: VecDeque::new(),
            forced: VecDeque::new(),
            seen: BTreeSet::new(),
            spent_fields: BTreeMap::new(),
            counters: BTreeMap::new(),
            contract_parents: BTreeMap::new(),
            calm,
            lag_left: 0,
            parent_child_blocks,
            avoid_forgotten,
        };
        h.snap = h.snapshot();
        h
    }

    pub fn count(&mut self, k: &str) {
        *self.counters.entry(k.to_string()).or_insert(0) += 1;
    }

    pub fn snapshot(&mut self) -> Snap {
        let mut s = Snap::default();
        let mut ids = self.pool.tx_ids();
        ids.sort();
        let n = ids.len();
        ids.dedup();
        if ids.len() != n {
            s.anomalies
                .push("tx id listing contains duplicates".to_string());
        }
        let txs = self.pool.txs(ids.clone());
        for (id, tx) in ids.iter().zip(txs) {
            match tx {
                Some(tx) => {
                    let info = TxInfo::of(&tx);
                    if &info.id != id {
                        s.anomalies.push(format!(
                            "lookup of {} returned {}",
                            short_id(id),
                            short_id(&info.id)
                        ));
                    }
                    s.txs.insert(*id, Arc::new(info));
                }
                None => s
                    .anomalies
                    .push(format!("listed id {} cannot be looked up", short_id(id))),
            }
        }
        let missing = self.pool.non_existing_txs(ids.clone());
        if !missing.is_empty() {
            s.anomalies
                .push(format!("{} listed ids reported as non-existing", missing.len()));
        }
        let p = self.pool.published_stats();
        s.published = Stats {
            count: p.tx_count,
            gas: p.total_gas,
            size: p.total_size,
        };
        let a = self.pool.accounting();
        s.accounting = Stats {
            count: a.tx_count,
            gas: a.total_gas,
            size: a.total_size,
        };
        s
    }

    // ---------------------------------------------------------------- generation

    fn fresh_id(&mut self) -> TxId {
        let id = txgen::test_tx_id(self.next_id);
        self.next_id += 1;
        id
    }

    fn pooled_inputs(&self) -> BTreeSet<UtxoId> {
        self.snap
            .txs
            .values()
            .flat_map(|t| t.coins.iter().map(|(u, _)| *u))
            .collect()
    }

    fn mutate(&mut self, f: CoinFields, allow_asset: bool) -> CoinFields {
        let mut g = f;
        match self.rng.gen_range(0..if allow_asset { 3 } else { 2 }) {
            0 => {
                g.owner = txgen::owner(
                    (0..txgen::N_OWNERS)
                        .find(|i| txgen::owner(*i) != f.owner)
                        .unwrap_or(0),
                )
            }
            1 => g.amount = if f.amount == 10 { 20 } else { 10 },
            _ => g.asset = txgen::alt_asset(),
        }
        g
    }

    /// Pick one coin input by category. Returns the input and the category name.
    fn pick_coin(&mut self, script: bool) -> (CoinIn, &'static str) {
        let chain = self.model.chain.with(|c| c.clone());
        let pooled_in = self.pooled_inputs();
        let w: &[(&'static str, u32)] = match self.focus {
            Focus::C17 => &[
                ("fresh", 28),
                ("pool_out", 40),
                ("pool_out_bad", 4),
                ("collide", 10),
                ("unsettled_out", 8),
                ("handed_out", 3),
                ("spent", 2),
                ("missing", 3),
                ("chain_mismatch", 2),
            ],
            Focus::C19 | Focus::C20 => &[
                ("fresh", 26),
                ("pool_out", 16),
                ("pool_out_bad", 8),
                ("collide", 12),
                ("unsettled_out", 10),
                ("handed_out", 10),
                ("spent", 6),
                ("missing", 4),
                ("withdrawn", 4),
                ("chain_mismatch", 4),
            ],
            _ => &[
                ("fresh", 36),
                ("pool_out", 26),
                ("pool_out_bad", 4),
                ("collide", 14),
                ("unsettled_out", 8),
                ("handed_out", 4),
                ("spent", 3),
                ("missing", 3),
                ("chain_mismatch", 2),
            ],
        };
        let total: u32 = w.iter().map(|x| x.1).sum();
        let mut r = self.rng.gen_range(0..total);
        let mut cat = "fresh";
        for (c, n) in w {
            if r < *n {
                cat = c;
                break;
            }
            r -= n;
        }
        let handed: Vec<(UtxoId, CoinFields)> = self
            .model
            .unsettled
            .values()
            .filter(|u| u.knows_inputs)
            .flat_map(|u| u.info.coins.clone())
            .collect();
        let handed_set: BTreeSet<UtxoId> = handed.iter().map(|x| x.0).collect();
        let fresh: Vec<(UtxoId, CoinFields)> = chain
            .coins
            .iter()
            .filter(|(u, _)| !pooled_in.contains(u) && !handed_set.contains(u))
            .map(|(u, f)| (*u, *f))
            .collect();
        let pick = match cat {
            "pool_out" | "pool_out_bad" => {
                let mut cands = Vec::new();
                for t in self.snap.txs.values() {
                    for (i, o) in t.outputs.iter().enumerate() {
                        let u = UtxoId::new(t.id, i as u16);
                        match (o, cat) {
                            (Out::Coin(f), "pool_out") => cands.push((u, *f, true)),
                            (Out::Coin(f), _) => cands.push((u, *f, false)),
                            (_, "pool_out_bad") => cands.push((
                                u,
                                CoinFields {
                                    owner: txgen::owner(0),
                                    amount: 10,
                                    asset: AssetId::BASE,
                                },
                                true,
                            )),
                            _ => {}
                        }
                    }
                    if cat == "pool_out_bad" {
                        cands.push((
                            UtxoId::new(t.id, t.outputs.len() as u16 + 1),
                            CoinFields {
                                owner: txgen::owner(0),
                                amount: 10,
                                asset: AssetId::BASE,
                            },
                            true,
                        ));
                    }
                }
                cands.choose(&mut self.rng).cloned().map(|(u, f, exact)| {
                    let f = if exact { f } else { self.mutate(f, script) };
                    CoinIn { predicate: false, utxo: u, f }
                })
            }
            "collide" => {
                let cands: Vec<_> = self
                    .snap
                    .txs
                    .values()
                    .flat_map(|t| t.coins.clone())
                    .collect();
                cands
                    .choose(&mut self.rng)
                    .map(|(u, f)| CoinIn { predicate: false, utxo: *u, f: *f })
            }
            "unsettled_out" => {
                let cands: Vec<_> = self
                    .model
                    .unsettled
                    .iter()
                    .flat_map(|(id, u)| {
                        u.coin_outputs
                            .iter()
                            .map(|(i, f)| (UtxoId::new(*id, *i), *f))
                            .collect::<Vec<_>>()
                    })
                    .collect();
                let mutate = chance(&mut self.rng, 15);
                cands.choose(&mut self.rng).cloned().map(|(u, f)| CoinIn {
predicate: false,
                    utxo: u,
                    f: if mutate { self.mutate(f, false) } else { f },
                })
            }
            "handed_out" => handed
                .choose(&mut self.rng)
                .map(|(u, f)| CoinIn { predicate: false, utxo: *u, f: *f }),
            "spent" => {
                let cands: Vec<_> = chain.spent_coins.iter().copied().collect();
                cands.choose(&mut self.rng).map(|u| CoinIn {
predicate: false,
                    utxo: *u,
                    f: self.spent_fields.get(u).copied().unwrap_or(CoinFields {
                        owner: txgen::owner(0),
                        amount: 10,
                        asset: AssetId::BASE,
                    }),
                })
            }
            "withdrawn" => {
                let mut cands = Vec::new();
                for id in self
                    .model
                    .rolled_back
                    .iter()
                    .chain(self.model.removed.iter())
                    .chain(self.model.stale_preconf.iter())
                {
                    if self.snap.contains(id) || self.model.unsettled.contains_key(id) {
                        continue;
                    }
                    if let Some((_, info)) = self.model.store.get(id) {
                        for (i, o) in info.outputs.iter().enumerate() {
                            if let Out::Coin(f) = o {
                                cands.push((UtxoId::new(*id, i as u16), *f));
                            }
                        }
                    }
                }
                cands
                    .choose(&mut self.rng)
                    .map(|(u, f)| CoinIn { predicate: false, utxo: *u, f: *f })
            }
            "missing" => {
                // output of a generated-but-unsubmitted parent (pending pool), or nothing at all
                let cands: Vec<_> = self
                    .model
                    .reserve
                    .iter()
                    .filter_map(|id| self.model.store.get(id))
                    .flat_map(|(_, info)| {
                        info.outputs
                            .iter()
                            .enumerate()
                            .filter_map(|(i, o)| match o {
                                Out::Coin(f) => Some((UtxoId::new(info.id, i as u16), *f)),
                                _ => None,
                            })
                            .collect::<Vec<_>>()
                    })
                    .collect();
                if !cands.is_empty() && chance(&mut self.rng, 75) {
                    cands
                        .choose(&mut self.rng)
                        .map(|(u, f)| CoinIn { predicate: false, utxo: *u, f: *f })
                } else {
                    let mut b = [0xEEu8; 32];
                    b[1] = self.rng.gen_range(0..4);
                    Some(CoinIn {
predicate: false,
                        utxo: UtxoId::new(b.into(), 0),
                        f: CoinFields {
                            owner: txgen::owner(0),
                            amount: 10,
                            asset: AssetId::BASE,
                        },
                    })
                }
            }
            "chain_mismatch" => fresh.choose(&mut self.rng).cloned().map(|(u, f)| CoinIn {
predicate: false,
                utxo: u,
                f: self.mutate(f, false),
            }),
            _ => None,
        };
        match pick {
            Some(c) => (c, cat),
            None => match fresh.choose(&mut self.rng) {
                Some((u, f)) => (CoinIn { predicate: false, utxo: *u, f: *f }, "fresh"),
                None => {
                    let mut b = [0xEFu8; 32];
                    b[1] = self.rng.gen_range(0..8);
                    (
                        CoinIn {
predicate: false,
                            utxo: UtxoId::new(b.into(), 0),
                            f: CoinFields {
                                owner: txgen::owner(0),
                                amount: 10,
                                asset: AssetId::BASE,
                            },
                        },
                        "missing",
                    )
                }
            },
        }
    }

    /// One message input. `allow_data`: scripts only (Create / Blob may not carry
    /// message data). Mostly the kind that matches the chain message, sometimes the
    /// other kind or a wrong amount; nonces already used by pooled txs are preferred
    /// now and then so that every message kind collides with every other.
    fn pick_msg(&mut self, allow_data: bool) -> MsgIn {
        let chain = self.model.chain.with(|c| c.clone());
        let pooled: Vec<Nonce> = self
            .snap
            .txs
            .values()
            .flat_map(|t| t.msgs.iter().map(|m| m.nonce))
            .collect();
        let n = if !pooled.is_empty() && chance(&mut self.rng, 35) {
            *pooled.choose(&mut self.rng).expect("nonempty")
        } else {
            nonce(self.rng.gen_range(0..N_MSGS))
        };
        let f = chain.messages.get(&n).cloned().unwrap_or(MsgFields {
            sender: txgen::owner(0),
            recipient: txgen::owner(self.rng.gen_range(0..txgen::N_OWNERS)),
            amount: 20,
            data: if chance(&mut self.rng, 50) {
                vec![7; 4]
            } else {
                vec![]
            },
        });
        let amount = if chance(&mut self.rng, 8) { 10 } else { f.amount };
        let mut data = f.data.clone();
        if chance(&mut self.rng, 10) {
            // the other kind of input for this nonce
            data = if data.is_empty() { vec![9; 4] } else { vec![] };
        }
        if !allow_data {
            data = vec![];
        }
        MsgIn {
            nonce: n,
            sender: f.sender,
            recipient: f.recipient,
            amount,
            data,
            predicate: chance(&mut self.rng, 60),
        }
    }

    fn contract_alphabet() -> Vec<ContractId> {
        (0..txgen::N_GENESIS_CONTRACTS)
            .map(txgen::genesis_contract)
            .chain((0..txgen::N_CREATABLE_CONTRACTS).map(txgen::creatable_contract))
            .collect()
    }

    /// May a Create for this contract reach the pool now? Not when the contract
    /// already exists on chain, was created by a handed-out / preconfirmed
    /// transaction, or is used by pooled transactions without a pooled creator:
    /// fuel-core's verification stage does not let such a Create reach the pool,
    /// and content-derived dependencies would then disagree with what the pool
    /// could know.
    fn contract_creatable(&self, c: &ContractId, by: Option<&TxId>) -> bool {
        if self.model.chain.with(|ch| ch.contracts.contains(c)) {
            return false;
        }
        if self
            .model
            .unsettled
            .iter()
            .any(|(id, u)| Some(id) != by && u.contracts.contains(c))
        {
            return false;
        }
        let pooled_creator = self
            .snap
            .txs
            .values()
            .any(|t| t.created_contracts().any(|x| &x == c));
        let pooled_user = self.snap.txs.values().any(|t| t.contracts.contains(c));
        !(pooled_user && !pooled_creator)
    }

    fn creatable(&self, i: usize) -> bool {
        self.contract_creatable(&txgen::creatable_contract(i), None)
    }

    fn create_allowed_now(&self, info: &TxInfo) -> bool {
        info.created_contracts()
            .all(|c| self.contract_creatable(&c, Some(&info.id)))
    }

    /// unsettled transactions that (transitively) depend on outputs of `roots`
    fn unsettled_dependents(&self, roots: &BTreeSet<TxId>) -> Vec<TxId> {
        let mut set = roots.clone();
        let mut out: Vec<(u64, TxId)> = Vec::new();
        loop {
            let mut grew = false;
            for (id, u) in &self.model.unsettled {
                if set.contains(id) {
                    continue;
                }
                let coin_dep = u.info.coins.iter().any(|(c, _)| set.contains(c.tx_id()));
                let contract_dep = u.info.contracts.iter().any(|c| {
                    !self.model.chain.with(|ch| ch.contracts.contains(c))
                        && set.iter().any(|r| {
                            self.model
                                .store
                                .get(r)
                                .is_some_and(|(_, i)| i.created_contracts().any(|x| &x == c))
                        })
                });
                if coin_dep || contract_dep {
                    set.insert(*id);
                    out.push((u.seq, *id));
                    grew = true;
                }
            }
            if !grew {
                break;
            }
        }
        out.sort();
        out.into_iter().map(|x| x.1).collect()
    }

    fn gen_spec(&mut self) -> (TxSpec, &'static str) {
        let kind = match self.rng.gen_range(0..100) {
            0..=69 => Kind::Script,
            70..=84 => {
                let i = self.rng.gen_range(0..txgen::N_CREATABLE_CONTRACTS);
                if self.creatable(i) {
                    Kind::Create(i)
                } else {
                    Kind::Script
                }
            }
            _ => Kind::Blob(self.rng.gen_range(0..txgen::N_BLOBS)),
        };
        let script = kind == Kind::Script;
        let n_coin = match self.rng.gen_range(0..100) {
            0..=54 => 1,
            55..=89 => 2,
            _ => 3,
        };
        let mut coins: Vec<CoinIn> = Vec::new();
        let mut why = "fresh";
        for _ in 0..n_coin {
            let (c, cat) = self.pick_coin(script);
            if coins.iter().any(|x| x.utxo == c.utxo) {
                continue;
            }
            if !script && c.f.asset != AssetId::BASE {
                continue;
            }
            if cat != "fresh" {
                why = cat;
            }
            coins.push(c);
        }
        if coins.is_empty() {
            let (c, cat) = self.pick_coin(false);
            why = cat;
            coins.push(CoinIn {
predicate: false,
                utxo: c.utxo,
                f: CoinFields {
                    asset: AssetId::BASE,
                    ..c.f
                },
            });
        }
        for c in coins.iter_mut() {
            c.predicate = chance(&mut self.rng, 60);
        }
        let mut msgs: Vec<MsgIn> = Vec::new();
        let n_msg = match self.rng.gen_range(0..100) {
            0..=71 => 0,
            72..=93 => 1,
            _ => 2,
        };
        for _ in 0..n_msg {
            let m = self.pick_msg(script);
            if !msgs.iter().any(|x| x.nonce == m.nonce) {
                msgs.push(m);
            }
        }
        let mut contracts: Vec<ContractId> = Vec::new();
        if script {
            let n_contracts = match self.rng.gen_range(0..100) {
                0..=71 => 0,
                72..=87 => 1,
                88..=96 => 2,
                _ => 3,
            };
            let alpha = Self::contract_alphabet();
            for _ in 0..n_contracts {
                let mut c = *alpha.choose(&mut self.rng).expect("nonempty");
                if chance(&mut self.rng, 6) {
                    let mut b = [0xDDu8; 32];
                    b[1] = 1;
                    c = b.into();
                }
                if !contracts.contains(&c) {
                    contracts.push(c);
                }
            }
        }
        let any_alt = coins.iter().any(|c| c.f.asset != AssetId::BASE);
        let mut budget: u64 = coins
            .iter()
            .filter(|c| c.f.asset == AssetId::BASE)
            .map(|c| c.f.amount)
            .sum::<u64>()
            + msgs.iter().map(|m| m.amount).sum::<u64>();
        let mut coin_outputs = Vec::new();
        if !any_alt {
            let n_out = match self.rng.gen_range(0..100) {
                0..=19 => 0,
                20..=64 => 1,
                65..=89 => 2,
                _ => 3,
            };
            for _ in 0..n_out {
                let amount = if budget >= 20 && chance(&mut self.rng, 40) {
                    20
                } else if budget >= 10 {
                    10
                } else {
                    break;
                };
                budget -= amount;
                coin_outputs.push(CoinFields {
                    owner: txgen::owner(self.rng.gen_range(0..txgen::N_OWNERS)),
                    amount,
                    asset: AssetId::BASE,
                });
            }
        }
        let change_to = (!any_alt && chance(&mut self.rng, 12))
            .then(|| txgen::owner(self.rng.gen_range(0..txgen::N_OWNERS)));
        let variable = script && chance(&mut self.rng, 6);
        let tip = self.rng.gen_range(0..=4);
        let meta = if script && chance(&mut self.rng, 25) {
            Meta::Real {
                gas_limit: self.rng.gen_range(1..=5),
                size: *[120usize, 300, 700].choose(&mut self.rng).expect("nonempty"),
                max_gas_price: *[0u64, 1, 2, 5].choose(&mut self.rng).expect("nonempty"),
            }
        } else {
            let max_gas = if chance(&mut self.rng, 2) {
                0
            } else {
                self.rng.gen_range(1..=5)
            };
            Meta::Test {
                id: self.fresh_id(),
                max_gas,
            }
        };
        (
            TxSpec {
                kind,
                meta,
                tip,
                coins,
                msgs,
                contracts,
                coin_outputs,
                change_to,
                variable,
                expiration: None,
                shuffle: self.rng.r#gen(),
            },
            why,
        )
    }

    fn build_new(&mut self) -> (ArcPoolTx, Arc<TxInfo>, &'static str) {
        for _ in 0..8 {
            let (spec, why) = self.gen_spec();
            match self.fac.build(&spec) {
                Ok(tx) => {
                    let info = Arc::new(TxInfo::of(&tx));
                    if self.model.store.contains_key(&info.id) {
                        self.count("gen.duplicate_real_id");
                        continue;
                    }
                    self.model.store.insert(info.id, (tx.clone(), info.clone()));
                    return (tx, info, why);
                }
                Err(e) => {
                    let k = e.split(['(', ' ', '{']).next().unwrap_or("?").to_string();
                    self.count(&format!("gen.check_failed.{k}"));
                }
            }
        }
        // fallback: the simplest valid transaction
        let (c, _) = self.pick_coin(false);
        let spec = TxSpec {
            kind: Kind::Script,
            meta: Meta::Test {
                id: self.fresh_id(),
                max_gas: 1,
            },
            tip: 0,
            coins: vec![CoinIn {
predicate: false,
                utxo: c.utxo,
                f: CoinFields {
                    asset: AssetId::BASE,
                    ..c.f
                },
            }],
            msgs: vec![],
            contracts: vec![],
            coin_outputs: vec![],
            change_to: None,
            variable: false,
            expiration: None,
            shuffle: self.rng.r#gen(),
        };
        let tx = self.fac.build(&spec).expect("fallback tx is valid");
        let info = Arc::new(TxInfo::of(&tx));
        self.model.store.insert(info.id, (tx.clone(), info.clone()));
        (tx, info, "fallback")
    }

    /// a transaction spending exactly the given inputs (probe)
    fn build_spending(&mut self, mut coins: Vec<CoinIn>) -> Option<(ArcPoolTx, Arc<TxInfo>)> {
        if coins.is_empty() {
            return None;
        }
        for c in coins.iter_mut() {
            c.predicate = chance(&mut self.rng, 50);
        }
        let spec = TxSpec {
            kind: Kind::Script,
            meta: Meta::Test {
                id: self.fresh_id(),
                max_gas: self.rng.gen_range(1..=3),
            },
            tip: self.rng.gen_range(0..=4),
            coins,
            msgs: vec![],
            contracts: vec![],
            coin_outputs: vec![],
            change_to: None,
            variable: false,
            expiration: None,
            shuffle: self.rng.r#gen(),
        };
        let tx = self.fac.build(&spec).ok()?;
        let info = Arc::new(TxInfo::of(&tx));
        self.model.store.insert(info.id, (tx.clone(), info.clone()));
        Some((tx, info))
    }

    fn gen_insert(&mut self) -> Op {
        for _ in 0..8 {
            let op = self.gen_insert_inner();
            if let Op::Insert { info, .. } = &op
                && !self.create_allowed_now(info)
            {
                self.count("gen.avoided.create_of_existing_contract");
                continue;
            }
            if self.avoid_forgotten
                && let Op::Insert { info, .. } = &op
                && self.hits_forgotten_entry(info)
            {
                self.count("gen.avoided.submission_hitting_dropped_cache_entry");
                continue;
            }
            return op;
        }
        loop {
            let (tx, info, why) = self.build_new();
            if self.create_allowed_now(&info) {
                return Op::Insert { tx, info, why };
            }
        }
    }

    fn hits_forgotten_entry(&self, info: &TxInfo) -> bool {
        (self.model.unsettled.contains_key(&info.id)
            && self.model.cache_forgot(&Key::Tx(info.id)))
            || info.coins.iter().any(|(u, _)| {
            !self.snap.contains(u.tx_id())
                && self.model.handed_out_coin(u).is_some()
                && self.model.cache_forgot(&Key::Coin(*u))
        }) || info.msgs.iter().any(|m| {
            self.model.handed_out_msg(&m.nonce).is_some()
                && self.model.cache_forgot(&Key::Msg(m.nonce))
        })
    }

    fn gen_insert_inner(&mut self) -> Op {
        // probes queued by earlier reconciliation steps
        while let Some(t) = self.todo.pop_front() {
            if !chance(&mut self.rng, 75) {
                continue;
            }
            match t {
                Todo::Resubmit(id, why) => {
                    if let Some((tx, info)) = self.model.store.get(&id).cloned() {
                        return Op::Insert { tx, info, why };
                    }
                }
                Todo::SpendOutputOf(id, why) => {
                    if let Some((_, p)) = self.model.store.get(&id).cloned() {
                        let outs: Vec<_> = p
                            .outputs
                            .iter()
                            .enumerate()
                            .filter_map(|(i, o)| match o {
                                Out::Coin(f) => Some(CoinIn {
predicate: false,
                                    utxo: UtxoId::new(id, i as u16),
                                    f: *f,
                                }),
                                _ => None,
                            })
                            .collect();
                        if let Some(c) = outs.choose(&mut self.rng).cloned()
                            && let Some((tx, info)) = self.build_spending(vec![c])
                        {
                            return Op::Insert { tx, info, why };
                        }
                    }
                }
                Todo::SpendInputOf(id, why) => {
                    if let Some((_, p)) = self.model.store.get(&id).cloned()
                        && let Some((u, f)) = p.coins.choose(&mut self.rng).cloned()
                        && f.asset == AssetId::BASE
                        && let Some((tx, info)) =
                            self.build_spending(vec![CoinIn { predicate: false, utxo: u, f }])
                    {
                        return Op::Insert { tx, info, why };
                    }
                }
            }
        }
        let r = self.rng.gen_range(0..100);
        if r < 14 {
            // resubmission of something the harness already generated
            let pools: [(&'static str, Vec<TxId>); 6] = [
                ("resubmit_pooled", self.snap.txs.keys().copied().collect()),
                (
                    "resubmit_unsettled",
                    self.model.unsettled.keys().copied().collect(),
                ),
                (
                    "resubmit_committed",
                    self.model
                        .chain
                        .with(|c| c.txs.iter().copied().collect::<Vec<_>>()),
                ),
                ("resubmit_removed", self.model.removed.iter().copied().collect()),
                (
                    "resubmit_rolled_back",
                    self.model.rolled_back.iter().copied().collect(),
                ),
                ("submit_reserved_parent", self.model.reserve.clone()),
            ];
            let nonempty: Vec<_> = pools.iter().filter(|(_, v)| !v.is_empty()).collect();
            if let Some((why, v)) = nonempty.choose(&mut self.rng)
                && let Some(id) = v.choose(&mut self.rng)
                && let Some((tx, info)) = self.model.store.get(id).cloned()
            {
                return Op::Insert { tx, info, why };
            }
        }
        if r < 20 {
            // build a parent, keep it back, submit a child first (pending pool)
            let (_ptx, pinfo, _) = self.build_new();
            if pinfo.outputs.iter().any(|o| matches!(o, Out::Coin(_))) {
                self.model.reserve.push(pinfo.id);
                let outs: Vec<_> = pinfo
                    .outputs
                    .iter()
                    .enumerate()
                    .filter_map(|(i, o)| match o {
                        Out::Coin(f) => Some(CoinIn {
predicate: false,
                            utxo: UtxoId::new(pinfo.id, i as u16),
                            f: *f,
                        }),
                        _ => None,
                    })
                    .collect();
                if let Some(c) = outs.choose(&mut self.rng).cloned()
                    && let Some((tx, info)) = self.build_spending(vec![c])
                {
                    return Op::Insert {
                        tx,
                        info,
                        why: "child_of_unsubmitted_parent",
                    };
                }
            }
        }
        let (tx, info, why) = self.build_new();
        Op::Insert { tx, info, why }
    }

    fn gen_extract(&mut self) -> Op {
        let min_price = match self.rng.gen_range(0..100) {
            0..=64 => 0,
            65..=79 => 1,
            80..=92 => 2,
            _ => 3,
        };
        let max_gas = match self.rng.gen_range(0..100) {
            0..=29 => u64::MAX,
            30..=34 => 0,
            _ => self.rng.gen_range(2..=18),
        };
        let max_txs = match self.rng.gen_range(0..100) {
            0..=39 => u16::MAX,
            40..=43 => 0,
            _ => self.rng.gen_range(1..=5),
        };
        let max_size = match self.rng.gen_range(0..100) {
            0..=49 => u32::MAX,
            50..=53 => 0,
            _ => self.rng.gen_range(250..=1800),
        };
        let mut excluded = Vec::new();
        if chance(&mut self.rng, 35) {
            let alpha = Self::contract_alphabet();
            // contracts that pooled transactions really touch, at any input position
            let used: Vec<ContractId> = self
                .snap
                .txs
                .values()
                .flat_map(|t| t.contracts.iter().copied())
                .collect();
            for _ in 0..self.rng.gen_range(1..=3) {
                if !used.is_empty() && chance(&mut self.rng, 70) {
                    excluded.push(*used.choose(&mut self.rng).expect("nonempty"));
                } else {
                    excluded.push(*alpha.choose(&mut self.rng).expect("nonempty"));
                }
            }
            excluded.sort();
            excluded.dedup();
        }
        Op::Extract {
            min_price,
            max_gas,
            max_txs,
            max_size,
            excluded,
        }
    }

    /// Is the transaction valid on top of `c` (all inputs present and matching)?
    fn valid_on_chain(c: &ChainState, t: &TxInfo) -> bool {
        if c.txs.contains(&t.id) {
            return false;
        }
        for (u, f) in &t.coins {
            if c.coins.get(u) != Some(f) {
                return false;
            }
        }
        for m in &t.msgs {
            match c.messages.get(&m.nonce) {
                Some(cm)
                    if cm.sender == m.sender
                        && cm.recipient == m.recipient
                        && cm.amount == m.amount
                        && cm.data == m.data => {}
                _ => return false,
            }
        }
        if t.contracts.iter().any(|x| !c.contracts.contains(x)) {
            return false;
        }
        if t.created_contracts().any(|x| c.contracts.contains(&x)) {
            return false;
        }
        if let Some(b) = &t.blob
            && c.blobs.contains(b)
        {
            return false;
        }
        true
    }

    fn apply_to_chain(c: &mut ChainState, t: &TxInfo, spent_fields: &mut BTreeMap<UtxoId, CoinFields>) {
        let mut left: u64 = 0;
        for (u, f) in &t.coins {
            c.coins.remove(u);
            c.spent_coins.insert(*u);
            spent_fields.insert(*u, *f);
            if f.asset == AssetId::BASE {
                left += f.amount;
            }
        }
        for m in &t.msgs {
            c.messages.remove(&m.nonce);
            c.spent_messages.insert(m.nonce);
            left += m.amount;
        }
        for o in &t.outputs {
            if let Out::Coin(f) = o
                && f.asset == AssetId::BASE
            {
                left = left.saturating_sub(f.amount);
            }
        }
        for (i, o) in t.outputs.iter().enumerate() {
            match o {
                Out::Coin(f) => {
                    c.coins.insert(UtxoId::new(t.id, i as u16), *f);
                }
                Out::ContractCreated(x) => {
                    c.contracts.insert(*x);
                }
                _ => {}
            }
        }
        let _ = left;
        if let Some(b) = &t.blob {
            c.blobs.insert(*b);
        }
        c.txs.insert(t.id);
    }

    fn gen_block(&mut self) -> Op {
        let mut c = self.model.chain.with(|c| c.clone());
        let height = c.height + if chance(&mut self.rng, 12) { 2 } else { 1 };
        let mut cands: Vec<(u64, Arc<TxInfo>, u32)> = Vec::new();
        for u in self.model.unsettled.values() {
            let p = match u.state {
                UState::Extracted => 85,
                UState::Tentative { .. } => 60,
            };
            // a tentative tx the pool never saw still needs its real contents
            if self.model.store.contains_key(&u.info.id) {
                cands.push((u.seq, u.info.clone(), p));
            }
        }
        cands.sort_by_key(|x| x.0);
        let g = Graph::of(&self.snap);
        if let Some(topo) = g.topo() {
            for id in topo {
                cands.push((u64::MAX, self.snap.txs[&id].clone(), 10));
            }
        }
        for id in self.model.reserve.clone() {
            if let Some((_, info)) = self.model.store.get(&id) {
                cands.push((u64::MAX, info.clone(), 15));
            }
        }
        let mut txs: Vec<Arc<TxInfo>> = Vec::new();
        for (_, info, p) in cands {
            if !self.parent_child_blocks
                && self.snap.contains(&info.id)
                && g.parents
                    .get(&info.id)
                    .is_some_and(|ps| ps.iter().any(|p| txs.iter().any(|t| &t.id == p)))
            {
                // only with `--parent-child-blocks off` (used while the pool's promotion
                // loop still tripped a debug assertion on such blocks)
                self.count("gen.avoided.block_with_pooled_parent_and_child");
                continue;
            }
            if chance(&mut self.rng, p) && Self::valid_on_chain(&c, &info) {
                Self::apply_to_chain(&mut c, &info, &mut BTreeMap::new());
                txs.push(info);
            }
        }
        Op::Block { height, txs }
    }

    fn resolved_outputs(t: &TxInfo) -> Vec<(UtxoId, Output)> {
        let inputs: u64 = t
            .coins
            .iter()
            .filter(|(_, f)| f.asset == AssetId::BASE)
            .map(|(_, f)| f.amount)
            .sum::<u64>()
            + t.msgs.iter().map(|m| m.amount).sum::<u64>();
        let outs: u64 = t
            .outputs
            .iter()
            .map(|o| match o {
                Out::Coin(f) if f.asset == AssetId::BASE => f.amount,
                _ => 0,
            })
            .sum();
        let mut v = Vec::new();
        for (i, o) in t.outputs.iter().enumerate() {
            let u = UtxoId::new(t.id, i as u16);
            match o {
                Out::Coin(f) => v.push((u, Output::coin(f.owner, f.amount, f.asset))),
                Out::Change => v.push((
                    u,
                    Output::change(
                        txgen::owner(0),
                        inputs.saturating_sub(outs),
                        AssetId::BASE,
                    ),
                )),
                Out::ContractCreated(c) => {
                    v.push((u, Output::contract_created(*c, Default::default())))
                }
                Out::Variable => {
                    v.push((u, Output::variable(txgen::owner(1), 10, AssetId::BASE)))
                }
                Out::Contract => {}
            }
        }
        v
    }

    fn gen_preconf(&mut self) -> Option<Op> {
        let canonical = self.model.chain.with(|c| c.height);
        let g = Graph::of(&self.snap);
        let executable: Vec<TxId> = self
            .snap
            .txs
            .keys()
            .filter(|id| g.parents.get(*id).is_none_or(|p| p.is_empty()))
            .copied()
            .collect();
        let extracted: Vec<TxId> = self
            .model
            .unsettled
            .iter()
            .filter(|(_, u)| u.state == UState::Extracted)
            .map(|(id, _)| *id)
            .collect();
        let unknown: Vec<TxId> = self
            .model
            .reserve
            .iter()
            .chain(self.model.removed.iter())
            .chain(self.model.rolled_back.iter())
            .filter(|id| {
                !self.snap.contains(id)
                    && !self.model.unsettled.contains_key(*id)
                    && !self.model.chain.with(|c| c.txs.contains(*id))
            })
            .copied()
            .collect();
        let kind = match self.rng.gen_range(0..100) {
            0..=49 => PKind::Success,
            50..=69 => PKind::Failure,
            _ => PKind::Squeezed,
        };
        let stale = kind != PKind::Squeezed && chance(&mut self.rng, 22);
        let pooled_all: Vec<TxId> = self.snap.txs.keys().copied().collect();
        let tentative: Vec<TxId> = self
            .model
            .unsettled
            .iter()
            .filter(|(_, u)| matches!(u.state, UState::Tentative { .. }))
            .map(|(id, _)| *id)
            .collect();
        let id = if stale {
            // anything, including transactions already dealt with
            let all: Vec<TxId> = pooled_all
                .iter()
                .chain(extracted.iter())
                .chain(unknown.iter())
                .chain(tentative.iter())
                .copied()
                .collect();
            *all.choose(&mut self.rng)?
        } else {
            let r = self.rng.gen_range(0..100);
            let src = if kind == PKind::Squeezed {
                if r < 40 && !pooled_all.is_empty() {
                    &pooled_all
                } else if r < 90 && !extracted.is_empty() {
                    &extracted
                } else {
                    &unknown
                }
            } else if r < 35 && !executable.is_empty() {
                &executable
            } else if r < 85 && !extracted.is_empty() {
                &extracted
            } else {
                &unknown
            };
            *src.choose(&mut self.rng)?
        };
        let info = self.model.store.get(&id)?.1.clone();
        if kind == PKind::Squeezed {
            // Skipping a handed-out Create while pool txs use its contract leaves those
            // users pooled (the pool only follows coin outputs there). That case is
            // outside the properties' text; it is avoided and counted.
            if let Some(u) = self.model.unsettled.get(&id)
                && u.contracts.iter().any(|c| {
                    self.snap.txs.values().any(|t| t.contracts.contains(c))
                })
            {
                self.count("gen.avoided.skip_of_handed_out_create_with_pooled_users");
                return None;
            }
            if self.model.unsettled.contains_key(&id) {
                let deps = self.unsettled_dependents(&[id].into_iter().collect());
                if deps.iter().any(|d| {
                    matches!(self.model.unsettled[d].state, UState::Tentative { .. })
                }) {
                    self.count("gen.avoided.skip_of_tx_with_preconfirmed_dependent");
                    return None;
                }
            }
        }
        let height = if stale {
            self.rng.gen_range(0..=canonical)
        } else {
            canonical + if chance(&mut self.rng, 15) { 2 } else { 1 }
        };
        let outputs = (kind != PKind::Squeezed && chance(&mut self.rng, 65))
            .then(|| Self::resolved_outputs(&info));
        Some(Op::Preconf {
            id,
            kind,
            height,
            stale,
            outputs,
        })
    }

    fn gen_expire(&mut self) -> Op {
        let mut ids = Vec::new();
        let pooled: Vec<TxId> = self.snap.txs.keys().copied().collect();
        let others: Vec<TxId> = self
            .model
            .unsettled
            .keys()
            .chain(self.model.removed.iter())
            .copied()
            .collect();
        for _ in 0..self.rng.gen_range(1..=3) {
            let src = if chance(&mut self.rng, 75) || others.is_empty() {
                &pooled
            } else {
                &others
            };
            if let Some(id) = src.choose(&mut self.rng) {
                ids.push(*id);
            }
        }
        ids.sort();
        ids.dedup();
        Op::Expire { ids }
    }

    pub fn gen_op(&mut self) -> Op {
        // weights: insert, extract, block, preconf, expire, expire_pending
        let w: [u32; 6] = match self.focus {
            Focus::C16 => [58, 10, 9, 13, 7, 3],
            Focus::C17 => [62, 10, 7, 10, 8, 3],
            Focus::C18 => [58, 22, 8, 6, 4, 2],
            Focus::C19 => [66, 11, 8, 9, 4, 2],
            Focus::C20 => [52, 11, 14, 18, 3, 2],
            Focus::C21 => [56, 9, 10, 13, 9, 3],
        };
        if let Some(op) = self.forced.pop_front() {
            self.count("gen.forced_skip_of_dependent_handed_out_tx");
            return op;
        }
        if !self.todo.is_empty() && chance(&mut self.rng, 60) {
            return self.gen_insert();
        }
        let mut w = w;
        if self.calm {
            for x in w.iter_mut().skip(1) {
                *x = (*x * 2 / 5).max(1);
            }
        }
        let total: u32 = w.iter().sum();
        let mut r = self.rng.gen_range(0..total);
        let mut k = 0;
        for (i, n) in w.iter().enumerate() {
            if r < *n {
                k = i;
                break;
            }
            r -= n;
        }
        match k {
            0 => self.gen_insert(),
            1 => self.gen_extract(),
            2 => self.gen_block(),
            3 => self.gen_preconf().unwrap_or_else(|| self.gen_insert()),
            4 => self.gen_expire(),
            _ => Op::ExpirePending,
        }
    }

    // ----------------------------------------------------------------- execution

    fn describe(&self, op: &Op) -> String {
        match op {
            Op::Insert { info, why, .. } => format!(
                "insert {} [{}] coins [{}] outs {:?}",
                info.short(),
                why,
                info.coins
                    .iter()
                    .map(|(u, _)| crate::snap::short_utxo(u))
                    .collect::<Vec<_>>()
                    .join(","),
                info.outputs
                    .iter()
                    .map(|o| match o {
                        Out::Coin(_) => "coin",
                        Out::Change => "change",
                        Out::Variable => "variable",
                        Out::Contract => "contract",
                        Out::ContractCreated(_) => "created",
                    })
                    .collect::<Vec<_>>()
            ),
            Op::Extract {
                min_price,
                max_gas,
                max_txs,
                max_size,
                excluded,
            } => format!(
                "extract(min_price {min_price}, max_gas {max_gas}, max_txs {max_txs}, max_size {max_size}, excluded {})",
                excluded.len()
            ),
            Op::Block { height, txs } => format!(
                "block {height} [{}]",
                txs.iter().map(|t| short_id(&t.id)).collect::<Vec<_>>().join(",")
            ),
            Op::Preconf {
                id,
                kind,
                height,
                stale,
                outputs,
            } => format!(
                "preconf {kind:?} {} height {height}{} outputs {}",
                short_id(id),
                if *stale { " (stale)" } else { "" },
                outputs.as_ref().map(|o| o.len() as i64).unwrap_or(-1)
            ),
            Op::Expire { ids } => format!(
                "expire [{}]",
                ids.iter().map(short_id).collect::<Vec<_>>().join(",")
            ),
            Op::ExpirePending => "expire_pending".to_string(),
        }
    }

    fn outcome(o: VerifInsertOutcome) -> Outcome {
        match o {
            VerifInsertOutcome::Inserted => Outcome::Inserted,
            VerifInsertOutcome::Pending => Outcome::Pending,
            VerifInsertOutcome::Rejected(e) => Outcome::Rejected(e),
        }
    }

    /// Execute one operation against the real pool worker.
    pub fn run(&mut self, idx: usize, op: Op) -> Ran {
        let before = self.snap.clone();
        let mut desc = self.describe(&op);
        // a lagging storage view catches up after a few operations (or at the next import)
        if self.model.chain.with(|c| c.lag.is_some()) {
            if self.lag_left == 0 || matches!(op, Op::Block { .. }) {
                self.model.chain.with(|c| c.lag = None);
                self.lag_left = 0;
            } else {
                self.lag_left -= 1;
                desc.push_str(" [stale storage view]");
            }
        }
        let _ = self.sink.take();
        let mut insert = None;
        let mut followups = Vec::new();
        let mut extracted = Vec::new();
        let pool = &mut self.pool;
        let res: Result<(), String> = match &op {
            Op::Insert { tx, info, .. } => {
                self.model.reserve.retain(|x| x != &info.id);
                let tx = tx.clone();
                catch(|| pool.insert(tx)).map(|(o, ev)| {
                    insert = Some(Self::outcome(o));
                    followups = ev
                        .into_iter()
                        .map(|e| (e.tx_id, Self::outcome(e.outcome)))
                        .collect();
                })
            }
            Op::Extract {
                min_price,
                max_gas,
                max_txs,
                max_size,
                excluded,
            } => {
                let c = Constraints {
                    minimal_gas_price: *min_price,
                    max_gas: *max_gas,
                    maximum_txs: *max_txs,
                    maximum_block_size: *max_size,
                    excluded_contracts: excluded.iter().copied().collect(),
                };
                catch(|| pool.extract_block_transactions(c)).map(|txs| {
                    extracted = txs.iter().map(|t| Arc::new(TxInfo::of(t))).collect();
                })
            }
            Op::Block { height, txs } => {
                // the importer commits to the database first, then notifies the pool
                // (in production the pool handles the import notification independently
                // of the storage view it reads, so the view may still show the old state:
                // generated for the default pool limits, where the spent-input cache
                // cannot overflow)
                let lag = self.cfg.name == "default"
                    && self.cfg.utxo_validation
                    && !txs.is_empty()
                    && chance(&mut self.rng, 50);
                let spent_fields = &mut self.spent_fields;
                self.model.chain.with(|c| {
                    let pre = lag.then(|| Box::new(c.clone()));
                    for t in txs {
                        Self::apply_to_chain(c, t, spent_fields);
                    }
                    c.height = *height;
                    c.lag = pre;
                });
                if lag {
                    self.lag_left = self.rng.gen_range(2..=6);
                    desc.push_str(" [storage view lags]");
                    *self
                        .counters
                        .entry("block.storage_view_lags_after_import".to_string())
                        .or_insert(0) += 1;
                }
                let mut block = Block::default();
                block.header_mut().set_block_height(BlockHeight::new(*height));
                let mut statuses = Vec::new();
                for t in txs {
                    self.model.reserve.retain(|x| x != &t.id);
                    let (ptx, _) = &self.model.store[&t.id];
                    let tx: Transaction = ptx.deref().into();
                    block.transactions_mut().push(tx);
                    // committed transactions may have succeeded or reverted
                    let reverted = t.tip % 4 == 3;
                    statuses.push(TransactionExecutionStatus {
                        id: t.id,
                        result: if reverted {
                            TransactionExecutionResult::Failed {
                                result: None,
                                receipts: Arc::new(vec![]),
                                total_gas: 0,
                                total_fee: 0,
                            }
                        } else {
                            TransactionExecutionResult::Success {
                                result: None,
                                receipts: Arc::new(vec![]),
                                total_gas: 0,
                                total_fee: 0,
                            }
                        },
                    });
                }
                let sealed = Sealed {
                    entity: block,
                    consensus: Default::default(),
                };
                let result =
                    Arc::new(ImportResult::new_from_local(sealed, statuses, vec![]).wrap());
                catch(|| pool.process_block(result)).map(|ev| {
                    followups = ev
                        .into_iter()
                        .map(|e| (e.tx_id, Self::outcome(e.outcome)))
                        .collect();
                })
            }
            Op::Preconf {
                id,
                kind,
                height,
                outputs,
                ..
            } => {
                let ptr = TxPointer::new(BlockHeight::new(*height), 0);
                let status = match kind {
                    PKind::Success => PreConfirmationStatus::Success(Arc::new(
                        statuses::PreConfirmationSuccess {
                            tx_pointer: ptr,
                            total_gas: 0,
                            total_fee: 0,
                            receipts: None,
                            resolved_outputs: outputs.clone(),
                        },
                    )),
                    PKind::Failure => PreConfirmationStatus::Failure(Arc::new(
                        statuses::PreConfirmationFailure {
                            tx_pointer: ptr,
                            total_gas: 0,
                            total_fee: 0,
                            receipts: None,
                            resolved_outputs: outputs.clone(),
                            reason: "harness".to_string(),
                        },
                    )),
                    PKind::Squeezed => PreConfirmationStatus::SqueezedOut(Arc::new(
                        statuses::PreConfirmationSqueezedOut {
                            reason: "skipped by producer".to_string(),
                        },
                    )),
                };
                let id = *id;
                catch(|| pool.process_preconfirmed_transaction(id, status)).map(|ev| {
                    followups = ev
                        .into_iter()
                        .map(|e| (e.tx_id, Self::outcome(e.outcome)))
                        .collect();
                })
            }
            Op::Expire { ids } => {
                let ids = ids.clone();
                catch(|| pool.remove_expired_transactions(ids))
            }
            Op::ExpirePending => catch(|| pool.expire_pending_transactions()).map(|ev| {
                followups = ev
                    .into_iter()
                    .map(|e| (e.tx_id, Self::outcome(e.outcome)))
                    .collect();
            }),
        };
        if let Err(p) = res {
            self.log.push(format!("{idx}: {desc} -> PANIC {p}"));
            return Ran::Panic(op.kind().to_string(), p);
        }
        let sink = self.sink.take();
        let after = match catch(|| self.snapshot()) {
            Ok(s) => s,
            Err(p) => {
                self.log.push(format!("{idx}: {desc} -> PANIC in snapshot {p}"));
                return Ran::Panic("snapshot".to_string(), p);
            }
        };
        let mut after = after;
        {
            // contract creators as seen at the moment each new transaction was admitted
            let mut view: BTreeMap<TxId, Arc<TxInfo>> = before.txs.clone();
            let mut admitted: Vec<TxId> = Vec::new();
            if let (Op::Insert { info, .. }, Some(Outcome::Inserted)) = (&op, &insert) {
                admitted.push(info.id);
            }
            admitted.extend(followups.iter().filter(|(_, o)| o.is_inserted()).map(|x| x.0));
            for b in admitted {
                let Some(info) = after.txs.get(&b).cloned() else {
                    continue;
                };
                let mut rec = BTreeMap::new();
                for c in &info.contracts {
                    let cands: Vec<TxId> = view
                        .values()
                        .filter(|a| a.id != b && a.created_contracts().any(|x| &x == c))
                        .map(|a| a.id)
                        .collect();
                    let pick = cands
                        .iter()
                        .find(|a| after.contains(a))
                        .or(cands.first())
                        .copied();
                    if let Some(a) = pick {
                        rec.insert(*c, a);
                    }
                }
                self.contract_parents.insert(b, rec);
                view.insert(b, info);
            }
            self.contract_parents.retain(|k, _| after.contains(k));
            after.contract_parents = self.contract_parents.clone();
        }
        let result = match &op {
            Op::Insert { .. } => insert.as_ref().map(|o| o.short()).unwrap_or_default(),
            Op::Extract { .. } => format!(
                "[{}]",
                extracted
                    .iter()
                    .map(|t| format!("{}({}/{})", short_id(&t.id), t.tip, t.max_gas))
                    .collect::<Vec<_>>()
                    .join(",")
            ),
            _ => String::new(),
        };
        self.log.push(format!(
            "{idx}: {desc} -> {result}{} pool [{}]",
            if followups.is_empty() {
                String::new()
            } else {
                format!(
                    " followups [{}]",
                    followups
                        .iter()
                        .map(|(id, o)| format!("{}:{}", short_id(id), o.short()))
                        .collect::<Vec<_>>()
                        .join(",")
                )
            },
            after.txs.keys().map(short_id).collect::<Vec<_>>().join(",")
        ));
        let chain = self.model.chain.visible();
        let truth = self.model.chain.truth();
        let lagging = self.model.chain.with(|c| c.lag.is_some());
        self.snap = after.clone();
        Ran::Step(Box::new(Step {
            op,
            before,
            after,
            insert,
            followups,
            extracted,
            sink,
            chain,
            truth,
            lagging,
        }))
    }

    /// the producer cannot execute handed-out transactions whose parent was skipped or
    /// rolled back: it reports them squeezed out right away
    fn force_skips(&mut self, deps: Vec<TxId>) {
        for d in deps {
            if self
                .model
                .unsettled
                .get(&d)
                .is_some_and(|u| u.state == UState::Extracted)
                && !self.forced.iter().any(|op| matches!(op, Op::Preconf { id, .. } if id == &d))
            {
                self.forced.push_back(Op::Preconf {
                    id: d,
                    kind: PKind::Squeezed,
                    height: 0,
                    stale: false,
                    outputs: None,
                });
            }
        }
    }

    /// Bring the harness model up to date with an executed step.
    pub fn apply(&mut self, step: &Step) {
        let incl = step.inclusion_exits();
        if let Op::Preconf { id, .. } = &step.op {
            self.seen.insert(*id);
        }
        // committed while a pooled ancestor stays pooled: the ancestor's subtree totals
        // inside the pool are not reduced (see c19)
        if matches!(step.op, Op::Block { .. } | Op::Preconf { .. }) {
            let g = Graph::of(&step.before);
            for x in &incl {
                if step.before.contains(x) && !step.after.contains(x) {
                    for a in g.ancestors(x) {
                        if step.after.contains(&a) {
                            self.model.stale_stats.insert(a);
                        }
                    }
                }
            }
        }
        self.model.stale_stats.retain(|x| step.after.contains(x));
        // non-inclusion exits become resubmittable
        for x in step.before.txs.keys() {
            if !step.after.contains(x) && !incl.contains(x) {
                self.model.removed.insert(*x);
            }
        }
        for x in step.after.txs.keys() {
            self.model.removed.remove(x);
            self.model.rolled_back.remove(x);
            self.model.stale_preconf.remove(x);
        }
        match &step.op {
            Op::Insert { info, .. } => {
                self.seen.insert(info.id);
                if matches!(step.insert, Some(Outcome::Inserted)) {
                    // probes for later
                    if chance(&mut self.rng, 10) {
                        self.todo.push_back(Todo::Resubmit(info.id, "resubmit_pooled"));
                    }
                }
            }
            Op::Extract { .. } => {
                for t in &step.extracted {
                    self.model.seq += 1;
                    let (coin_outputs, contracts) = Model::static_outputs(t);
                    self.model.spend_extracted(t);
                    self.model.unsettled.insert(
                        t.id,
                        Unsettled {
                            info: t.clone(),
                            state: UState::Extracted,
                            knows_inputs: true,
                            coin_outputs,
                            contracts,
                            seq: self.model.seq,
                        },
                    );
                    if chance(&mut self.rng, 25) {
                        self.todo
                            .push_back(Todo::Resubmit(t.id, "resubmit_handed_out"));
                    }
                    if chance(&mut self.rng, 30) {
                        self.todo
                            .push_back(Todo::SpendInputOf(t.id, "spend_handed_out_input"));
                    }
                    if chance(&mut self.rng, 20) {
                        self.todo
                            .push_back(Todo::SpendOutputOf(t.id, "spend_handed_out_output"));
                    }
                }
            }
            Op::Block { height, txs } => {
                let in_block: BTreeSet<TxId> = txs.iter().map(|t| t.id).collect();
                for t in txs {
                    self.seen.insert(t.id);
                    let handed_out = self
                        .model
                        .unsettled
                        .get(&t.id)
                        .is_some_and(|u| u.knows_inputs && u.state == UState::Extracted);
                    self.model
                        .spend_committed(t, step.before.contains(&t.id), handed_out);
                    let was_pooled = step.before.contains(&t.id);
                    if was_pooled
                        || self.model.unsettled.get(&t.id).is_some_and(|u| u.knows_inputs)
                    {
                        for k in Model::input_keys(t) {
                            self.model.known_spent.insert(k);
                            if was_pooled {
                                self.model.pooled_committed_inputs.insert(k);
                            }
                        }
                    }
                    if was_pooled && step.lagging {
                        self.count("block.stale_view_after_import_of_pooled_not_extracted_tx");
                        if chance(&mut self.rng, 85) {
                            self.todo
                                .push_front(Todo::SpendInputOf(t.id, "spend_committed_input"));
                        }
                    }
                    self.model.unsettled.remove(&t.id);
                    self.model.removed.remove(&t.id);
                    self.model.rolled_back.remove(&t.id);
                    self.model.stale_preconf.remove(&t.id);
                    if chance(&mut self.rng, 20) {
                        self.todo
                            .push_back(Todo::Resubmit(t.id, "resubmit_committed"));
                    }
                    if chance(&mut self.rng, 25) {
                        self.todo
                            .push_back(Todo::SpendInputOf(t.id, "spend_committed_input"));
                    }
                    if chance(&mut self.rng, 20) {
                        self.todo
                            .push_back(Todo::SpendOutputOf(t.id, "spend_committed_output"));
                    }
                }
                let rolled: Vec<TxId> = self
                    .model
                    .unsettled
                    .iter()
                    .filter(|(id, u)| {
                        matches!(u.state, UState::Tentative { height: h } if h <= *height)
                            && !in_block.contains(*id)
                    })
                    .map(|(id, _)| *id)
                    .collect();
                let deps = self.unsettled_dependents(&rolled.iter().copied().collect());
                self.force_skips(deps);
                for id in rolled {
                    if let Some(u) = self.model.unsettled.get(&id).cloned() {
                        self.model.unspend(&u.info, u.knows_inputs);
                    }
                    self.model.unsettled.remove(&id);
                    if !step.after.contains(&id) {
                        self.model.rolled_back.insert(id);
                    }
                    self.count("model.rollback");
                    if chance(&mut self.rng, 70) {
                        self.todo
                            .push_back(Todo::Resubmit(id, "resubmit_rolled_back"));
                    }
                    if chance(&mut self.rng, 60) {
                        self.todo
                            .push_back(Todo::SpendOutputOf(id, "spend_withdrawn_output"));
                    }
                }
            }
            Op::Preconf {
                id,
                kind,
                height,
                stale,
                outputs,
            } => match kind {
                PKind::Squeezed => {
                    if let Some(u) = self.model.unsettled.get(id)
                        && u.state == UState::Extracted
                    {
                        let deps = self.unsettled_dependents(&[*id].into_iter().collect());
                        let skipped = u.info.clone();
                        self.model.unspend(&skipped, true);
                        self.model.unsettled.remove(id);
                        self.model.removed.insert(*id);
                        self.force_skips(deps);
                        if chance(&mut self.rng, 50) {
                            self.todo.push_back(Todo::Resubmit(*id, "resubmit_skipped"));
                        }
                        if chance(&mut self.rng, 40) {
                            self.todo
                                .push_back(Todo::SpendOutputOf(*id, "spend_skipped_output"));
                        }
                    }
                }
                _ if *stale => {
                    if !step.before.contains(id)
                        && !self.model.unsettled.contains_key(id)
                        && !step.truth.txs.contains(id)
                    {
                        self.model.stale_preconf.insert(*id);
                        if chance(&mut self.rng, 60) {
                            self.todo.push_back(Todo::SpendOutputOf(
                                *id,
                                "spend_stale_preconfirmed_output",
                            ));
                        }
                    }
                }
                _ => {
                    let Some((_, info)) = self.model.store.get(id).cloned() else {
                        return;
                    };
                    self.model.seq += 1;
                    let was_pooled = step.before.contains(id);
                    let prev = self.model.unsettled.get(id).cloned();
                    let knows = was_pooled || prev.as_ref().is_some_and(|u| u.knows_inputs);
                    let (mut coin_outputs, mut contracts) = match (&prev, was_pooled) {
                        (Some(u), _) => (u.coin_outputs.clone(), u.contracts.clone()),
                        (None, true) => Model::static_outputs(&info),
                        (None, false) => (BTreeMap::new(), BTreeSet::new()),
                    };
                    if let Some(outs) = outputs {
                        for (u, o) in outs {
                            match o {
                                Output::Coin {
                                    to,
                                    amount,
                                    asset_id,
                                }
                                | Output::Change {
                                    to,
                                    amount,
                                    asset_id,
                                }
                                | Output::Variable {
                                    to,
                                    amount,
                                    asset_id,
                                } => {
                                    coin_outputs.insert(
                                        u.output_index(),
                                        CoinFields {
                                            owner: *to,
                                            amount: *amount,
                                            asset: *asset_id,
                                        },
                                    );
                                }
                                Output::ContractCreated { contract_id, .. } => {
                                    contracts.insert(*contract_id);
                                }
                                Output::Contract(_) => {}
                            }
                        }
                    }
                    let handed_out = prev
                        .as_ref()
                        .is_some_and(|u| u.knows_inputs && u.state == UState::Extracted);
                    self.model.spend_committed(&info, was_pooled, handed_out);
                    self.model.removed.remove(id);
                    self.model.rolled_back.remove(id);
                    self.model.stale_preconf.remove(id);
                    self.model.unsettled.insert(
                        *id,
                        Unsettled {
                            info,
                            state: UState::Tentative { height: *height },
                            knows_inputs: knows,
                            coin_outputs,
                            contracts,
                            seq: prev.map(|u| u.seq).unwrap_or(self.model.seq),
                        },
                    );
                    if chance(&mut self.rng, 35) {
                        self.todo.push_back(Todo::SpendOutputOf(
                            *id,
                            "spend_preconfirmed_output",
                        ));
                    }
                }
            },
            Op::Expire { .. } | Op::ExpirePending => {}
        }
    }
}
