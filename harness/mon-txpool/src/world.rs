//! Harness-side ports of the pool: a mutable "chain" (persistent storage view)
//! and a recording transaction-status sink.

use fuel_core_storage::{
    Mappable,
    PredicateStorageRequirements,
    Result as StorageResult,
    StorageInspect,
    StorageRead,
    StorageReadError,
    StorageSize,
};
use fuel_core_txpool::ports::{
    AtomicView,
    TxPoolPersistentStorage,
    TxStatusManager,
};
use fuel_core_types::{
    entities::{
        coins::coin::CompressedCoin,
        relayer::message::{
            Message,
            MessageV1,
        },
    },
    fuel_tx::{
        Address,
        AssetId,
        BlobId,
        ContractId,
        TxId,
        UtxoId,
    },
    fuel_types::Nonce,
    fuel_vm::{
        BlobBytes,
        BlobData,
    },
    services::transaction_status::{
        PreConfirmationStatus,
        TransactionStatus,
        statuses,
    },
};
use std::{
    borrow::Cow,
    collections::{
        BTreeMap,
        BTreeSet,
    },
    sync::{
        Arc,
        Mutex,
    },
};
use tokio::sync::broadcast;

/// Coin fields that matter to the pool.
#[derive(Clone, Copy, Debug, PartialEq, Eq, PartialOrd, Ord, Hash)]
pub struct CoinFields {
    pub owner: Address,
    pub amount: u64,
    pub asset: AssetId,
}

#[derive(Clone, Debug)]
pub struct MsgFields {
    pub sender: Address,
    pub recipient: Address,
    pub amount: u64,
    /// non-empty for data-carrying (retryable) messages
    pub data: Vec<u8>,
}

/// The canonical chain as the harness models it (the "database" the pool reads).
#[derive(Default, Clone)]
pub struct ChainState {
    pub coins: BTreeMap<UtxoId, CoinFields>,
    pub spent_coins: BTreeSet<UtxoId>,
    pub messages: BTreeMap<Nonce, MsgFields>,
    pub spent_messages: BTreeSet<Nonce>,
    pub contracts: BTreeSet<ContractId>,
    pub blobs: BTreeSet<BlobId>,
    pub txs: BTreeSet<TxId>,
    pub height: u32,
    /// When set: the snapshot the persistent-storage view still shows to the pool
    /// (the view lags behind the block import). The fields above are the truth.
    pub lag: Option<Box<ChainState>>,
}

#[derive(Clone, Default)]
pub struct ChainView(pub Arc<Mutex<ChainState>>);

impl ChainView {
    pub fn with<T>(&self, f: impl FnOnce(&mut ChainState) -> T) -> T {
        let mut g = self.0.lock().unwrap_or_else(|e| e.into_inner());
        f(&mut g)
    }

    /// what the pool can see through the port (possibly a lagging snapshot)
    fn seen<T>(&self, f: impl FnOnce(&ChainState) -> T) -> T {
        let g = self.0.lock().unwrap_or_else(|e| e.into_inner());
        f(g.lag.as_deref().unwrap_or(&g))
    }

    pub fn visible(&self) -> ChainState {
        self.seen(|c| {
            let mut v = c.clone();
            v.lag = None;
            v
        })
    }

    pub fn truth(&self) -> ChainState {
        self.with(|c| {
            let mut v = c.clone();
            v.lag = None;
            v
        })
    }
}

fn compressed(c: &CoinFields) -> CompressedCoin {
    let mut coin = CompressedCoin::default();
    coin.set_owner(c.owner);
    coin.set_amount(c.amount);
    coin.set_asset_id(c.asset);
    coin
}

impl TxPoolPersistentStorage for ChainView {
    fn contains_tx(&self, tx_id: &TxId) -> StorageResult<bool> {
        Ok(self.seen(|c| c.txs.contains(tx_id)))
    }

    fn utxo(&self, utxo_id: &UtxoId) -> StorageResult<Option<CompressedCoin>> {
        Ok(self.seen(|c| c.coins.get(utxo_id).map(compressed)))
    }

    fn contract_exist(&self, contract_id: &ContractId) -> StorageResult<bool> {
        Ok(self.seen(|c| c.contracts.contains(contract_id)))
    }

    fn blob_exist(&self, blob_id: &BlobId) -> StorageResult<bool> {
        Ok(self.seen(|c| c.blobs.contains(blob_id)))
    }

    fn message(&self, nonce: &Nonce) -> StorageResult<Option<Message>> {
        Ok(self.seen(|c| {
            c.messages.get(nonce).map(|m| {
                MessageV1 {
                    sender: m.sender,
                    recipient: m.recipient,
                    nonce: *nonce,
                    amount: m.amount,
                    data: m.data.clone(),
                    da_height: Default::default(),
                }
                .into()
            })
        }))
    }
}

// The pool never reads blob bytes through this view in the monitored paths; the
// trait bound (`PredicateStorageRequirements`) still has to be satisfied.
impl StorageInspect<BlobData> for ChainView {
    type Error = ();

    fn get(
        &self,
        key: &<BlobData as Mappable>::Key,
    ) -> Result<Option<Cow<'_, <BlobData as Mappable>::OwnedValue>>, Self::Error> {
        Ok(self.seen(|c| {
            c.blobs
                .contains(key)
                .then(|| Cow::Owned(BlobBytes::from(vec![0u8; 8])))
        }))
    }

    fn contains_key(&self, key: &<BlobData as Mappable>::Key) -> Result<bool, Self::Error> {
        Ok(self.seen(|c| c.blobs.contains(key)))
    }
}

impl StorageSize<BlobData> for ChainView {
    fn size_of_value(
        &self,
        key: &<BlobData as Mappable>::Key,
    ) -> Result<Option<usize>, Self::Error> {
        Ok(self.seen(|c| c.blobs.contains(key).then_some(8)))
    }
}

impl StorageRead<BlobData> for ChainView {
    fn read_exact(
        &self,
        key: &<BlobData as Mappable>::Key,
        _offset: usize,
        buf: &mut [u8],
    ) -> Result<core::result::Result<usize, StorageReadError>, ()> {
        if !self.seen(|c| c.blobs.contains(key)) {
            return Ok(Err(StorageReadError::KeyNotFound));
        }
        buf.fill(0);
        Ok(Ok(buf.len()))
    }

    fn read_zerofill(
        &self,
        key: &<BlobData as Mappable>::Key,
        _offset: usize,
        buf: &mut [u8],
    ) -> Result<core::result::Result<usize, StorageReadError>, ()> {
        if !self.seen(|c| c.blobs.contains(key)) {
            return Ok(Err(StorageReadError::KeyNotFound));
        }
        buf.fill(0);
        Ok(Ok(8))
    }

    fn read_alloc(
        &self,
        key: &<BlobData as Mappable>::Key,
    ) -> Result<Option<Vec<u8>>, Self::Error> {
        Ok(self.seen(|c| c.blobs.contains(key).then(|| vec![0u8; 8])))
    }
}

impl PredicateStorageRequirements for ChainView {
    fn storage_error_to_string(error: Self::Error) -> String {
        format!("{error:?}")
    }
}

pub struct ChainProvider(pub ChainView);

impl AtomicView for ChainProvider {
    type LatestView = ChainView;

    fn latest_view(&self) -> StorageResult<Self::LatestView> {
        Ok(self.0.clone())
    }
}

/// What the pool told the status service.
#[derive(Clone, Debug, PartialEq, Eq)]
pub enum SinkEvent {
    /// `status_update(tx, Submitted)`
    Submitted(TxId),
    /// one element of a `squeezed_out_txs` call (or a squeezed-out `status_update`)
    SqueezedOut(TxId, String),
    /// any other `status_update`
    Other(TxId, String),
}

pub struct Sink {
    events: Mutex<Vec<SinkEvent>>,
    preconf: broadcast::Sender<(TxId, PreConfirmationStatus)>,
}

impl Sink {
    pub fn new() -> Self {
        let (preconf, _) = broadcast::channel(16);
        Sink {
            events: Mutex::new(Vec::new()),
            preconf,
        }
    }

    pub fn take(&self) -> Vec<SinkEvent> {
        std::mem::take(&mut *self.events.lock().unwrap_or_else(|e| e.into_inner()))
    }

    fn push(&self, e: SinkEvent) {
        self.events.lock().unwrap_or_else(|e| e.into_inner()).push(e);
    }
}

impl TxStatusManager for Sink {
    fn status_update(&self, tx_id: TxId, tx_status: TransactionStatus) {
        match &tx_status {
            TransactionStatus::Submitted(_) => self.push(SinkEvent::Submitted(tx_id)),
            TransactionStatus::SqueezedOut(s) => {
                self.push(SinkEvent::SqueezedOut(tx_id, s.reason().to_string()))
            }
            other => self.push(SinkEvent::Other(tx_id, format!("{other:?}"))),
        }
    }

    fn preconfirmations_update_listener(
        &self,
    ) -> broadcast::Receiver<(TxId, PreConfirmationStatus)> {
        self.preconf.subscribe()
    }

    fn squeezed_out_txs(&self, statuses: Vec<(TxId, statuses::SqueezedOut)>) {
        for (tx_id, s) in statuses {
            self.push(SinkEvent::SqueezedOut(tx_id, s.reason().to_string()));
        }
    }
}
