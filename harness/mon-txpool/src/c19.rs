//! C19: admission rules. The oracle judges every `Inserted` outcome against the
//! snapshot taken before the insert, the chain model and the harness's own list
//! of handed-out / preconfirmed, unsettled transactions; plus the converse sanity
//! direction for the plain case.
//!
//! Each finding carries the C19 signature and, where the cause is a reconciliation
//! failure (C20), the C20 signature as well.

use crate::{
    model::{
        Cfg,
        Key,
        Model,
        Op,
        Outcome,
        Step,
    },
    snap::{
        Graph,
        Out,
        Snap,
        TxInfo,
        conflict,
        ratio_gt,
        short_id,
        short_utxo,
    },
    world::ChainState,
};
use std::collections::BTreeSet;

#[derive(Clone, Debug)]
pub struct AdmFinding {
    pub sig19: String,
    pub sig20: Option<String>,
    pub detail: String,
}

fn adm(sig19: impl Into<String>, sig20: Option<&str>, detail: impl Into<String>) -> AdmFinding {
    AdmFinding {
        sig19: sig19.into(),
        sig20: sig20.map(|s| s.to_string()),
        detail: detail.into(),
    }
}

/// Judge one admitted transaction. `pooled` is the pool content the transaction
/// was admitted against; `after` the content afterwards (for eviction checks).
pub fn judge_admitted(
    t: &TxInfo,
    pooled: &Snap,
    after: Option<&Snap>,
    chain: &ChainState,
    truth: &ChainState,
    model: &Model,
    cfg: &Cfg,
) -> Vec<AdmFinding> {
    let mut out = Vec::new();
    let me = t.short();
    let cap = cfg.max_txs + 1;

    if pooled.contains(&t.id) {
        out.push(adm(
            "c19 admitted_duplicate_id state=pooled",
            None,
            format!("insert of {me} returned Inserted although the id is already pooled"),
        ));
    }
    if chain.txs.contains(&t.id) {
        out.push(adm(
            "c19 admitted_duplicate_id state=committed",
            Some("c20 committed_tx_admitted_again"),
            format!("insert of {me} returned Inserted although the id is committed on chain"),
        ));
    }

    if model.unsettled.contains_key(&t.id) && !model.claim_released(&Key::Tx(t.id)) {
        let forgot = model.cache_forgot(&Key::Tx(t.id));
        out.push(adm(
            format!("c19 admitted_duplicate_id state=handed_out_or_preconfirmed cache_forgot={forgot}"),
            None,
            format!(
                "insert of {me} returned Inserted although this very transaction was handed out for a block / preconfirmed and is not settled (spent-input cache capacity {cap}, its entry pushed out of the cache: {forgot})"
            ),
        ));
    }

    for (u, f) in &t.coins {
        if let Some(p) = pooled.txs.get(u.tx_id()) {
            match p.coin_output(u.output_index()) {
                Some(Out::Coin(of)) => {
                    if of != f {
                        let field = if of.owner != f.owner {
                            "owner"
                        } else if of.amount != f.amount {
                            "amount"
                        } else {
                            "asset"
                        };
                        out.push(adm(
                            format!("c19 admitted_input_output_mismatch field={field}"),
                            None,
                            format!(
                                "{me} admitted; its input {} claims {:?} but pooled parent {} outputs {:?}",
                                short_utxo(u),
                                f,
                                short_id(&p.id),
                                of
                            ),
                        ));
                    }
                    continue;
                }
                other => {
                    if cfg.utxo_validation {
                        out.push(adm(
                            "c19 admitted_input_output_mismatch field=output_kind",
                            None,
                            format!(
                                "{me} admitted; its coin input {} points at output {:?} of pooled {} which is not a coin output",
                                short_utxo(u),
                                other,
                                short_id(&p.id)
                            ),
                        ));
                    }
                    continue;
                }
            }
        }
        if !cfg.utxo_validation {
            continue;
        }
        if let Some(holder) = model
            .handed_out_coin(u)
            .filter(|_| !model.claim_released(&Key::Coin(*u)))
        {
            let forgot = model.cache_forgot(&Key::Coin(*u));
            out.push(adm(
                if forgot { "c19 admitted_handed_out_input cache_forgot=true".to_string() } else { "c19 admitted_handed_out_input kind=coin cache_forgot=false".to_string() },
                None,
                format!(
                    "{me} admitted although its input {} was handed out with {} which is not settled (spent-input cache capacity {cap}, entry pushed out of the cache: {forgot})",
                    short_utxo(u),
                    short_id(&holder)
                ),
            ));
            continue;
        }
        if truth.spent_coins.contains(u)
            && chain.coins.contains_key(u)
            && model.known_spent.contains(&Key::Coin(*u))
        {
            out.push(adm(
                "c19 admitted_committed_spent_input kind=coin view=stale",
                Some("c20 committed_input_accepted view=stale"),
                format!(
                    "{me} admitted; input {} was spent by an imported block whose spender the pool held itself; the storage view handed to the pool still showed the coin",
                    short_utxo(u)
                ),
            ));
            continue;
        }
        if let Some(cf) = chain.coins.get(u) {
            if cf != f {
                out.push(adm(
                    "c19 admitted_chain_coin_mismatch",
                    None,
                    format!(
                        "{me} admitted; input {} claims {:?}, chain coin is {:?}",
                        short_utxo(u),
                        f,
                        cf
                    ),
                ));
            }
            continue;
        }
        if let Some(of) = model.unsettled_coin(u) {
            if &of != f {
                out.push(adm(
                    "c19 admitted_input_output_mismatch field=unsettled_output",
                    None,
                    format!(
                        "{me} admitted; input {} claims {:?}, handed-out/preconfirmed output is {:?}",
                        short_utxo(u),
                        f,
                        of
                    ),
                ));
            }
            continue;
        }
        if chain.spent_coins.contains(u) {
            out.push(adm(
                "c19 admitted_committed_spent_input kind=coin",
                Some("c20 committed_input_accepted"),
                format!("{me} admitted; input {} was spent by a committed block", short_utxo(u)),
            ));
        } else if model.rolled_back.contains(u.tx_id()) {
            out.push(adm(
                "c19 admitted_missing_input kind=coin",
                Some("c20 withdrawn_preconfirmed_output_accepted"),
                format!(
                    "{me} admitted; input {} is an output of {} whose preconfirmation was rolled back",
                    short_utxo(u),
                    short_id(u.tx_id())
                ),
            ));
        } else if model.stale_preconf.contains(u.tx_id()) {
            out.push(adm(
                "c19 admitted_missing_input kind=coin",
                Some("c20 stale_preconfirmation_output_accepted"),
                format!(
                    "{me} admitted; input {} was only announced by a stale preconfirmation",
                    short_utxo(u)
                ),
            ));
        } else {
            out.push(adm(
                "c19 admitted_missing_input kind=coin",
                None,
                format!(
                    "{me} admitted; input {} is neither on chain nor a pool / handed-out output",
                    short_utxo(u)
                ),
            ));
        }
    }

    if cfg.utxo_validation {
        for m in &t.msgs {
            if let Some(holder) = model
                .handed_out_msg(&m.nonce)
                .filter(|_| !model.claim_released(&Key::Msg(m.nonce)))
            {
                let forgot = model.cache_forgot(&Key::Msg(m.nonce));
                out.push(adm(
                    if forgot { "c19 admitted_handed_out_input cache_forgot=true".to_string() } else { "c19 admitted_handed_out_input kind=message cache_forgot=false".to_string() },
                    None,
                    format!(
                        "{me} admitted although its message {} was handed out with {} (cache capacity {cap}, pushed out: {forgot})",
                        hex::encode(&m.nonce.as_ref()[28..]),
                        short_id(&holder)
                    ),
                ));
                continue;
            }
            if truth.spent_messages.contains(&m.nonce)
                && chain.messages.contains_key(&m.nonce)
                && model.known_spent.contains(&Key::Msg(m.nonce))
            {
                out.push(adm(
                    "c19 admitted_committed_spent_input kind=message view=stale",
                    Some("c20 committed_input_accepted view=stale"),
                    format!(
                        "{me} admitted; its message was spent by an imported block whose spender the pool held itself; the storage view still showed the message"
                    ),
                ));
                continue;
            }
            match chain.messages.get(&m.nonce) {
                Some(cm) => {
                    if cm.sender != m.sender
                        || cm.recipient != m.recipient
                        || cm.amount != m.amount
                        || cm.data != m.data
                    {
                        out.push(adm(
                            "c19 admitted_chain_message_mismatch",
                            None,
                            format!("{me} admitted; message input disagrees with the chain message"),
                        ));
                    }
                }
                None => {
                    if chain.spent_messages.contains(&m.nonce) {
                        out.push(adm(
                            "c19 admitted_committed_spent_input kind=message",
                            Some("c20 committed_input_accepted"),
                            format!("{me} admitted; its message was spent by a committed block"),
                        ));
                    } else {
                        out.push(adm(
                            "c19 admitted_missing_input kind=message",
                            None,
                            format!("{me} admitted; its message does not exist on chain"),
                        ));
                    }
                }
            }
        }
    }

    for c in &t.contracts {
        let exists = chain.contracts.contains(c)
            || pooled
                .txs
                .values()
                .any(|p| p.id != t.id && p.created_contracts().any(|x| &x == c))
            || model.unsettled_contract(c);
        if !exists {
            let by_rolled_back = model.rolled_back.iter().any(|id| {
                model
                    .store
                    .get(id)
                    .is_some_and(|(_, i)| i.created_contracts().any(|x| &x == c))
            });
            out.push(adm(
                "c19 admitted_missing_contract",
                by_rolled_back.then_some("c20 withdrawn_preconfirmed_contract_accepted"),
                format!("{me} admitted; contract input does not exist on chain, in the pool or in a handed-out tx"),
            ));
        }
    }

    // collisions
    if let Some(after) = after {
        let colliding: Vec<_> = pooled
            .txs
            .values()
            .filter(|k| k.id != t.id)
            .filter_map(|k| conflict(t, k).map(|w| (k, w)))
            .collect();
        if !colliding.is_empty() {
            let g = Graph::of(pooled);
            for (k, why) in colliding {
                let mut sub = g.descendants(&k.id);
                sub.insert(k.id);
                let (mut tip, mut gas) = (0u64, 0u64);
                for s in &sub {
                    let i = &pooled.txs[s];
                    tip = tip.saturating_add(i.tip);
                    gas = gas.saturating_add(i.max_gas);
                }
                if !ratio_gt(t.tip, t.max_gas, tip, gas) {
                    out.push(adm(
                        if model.stale_stats.contains(&k.id) {
                            "c19 admitted_without_strictly_better_ratio subtree_stats_stale_after_child_commit"
                        } else {
                            "c19 admitted_without_strictly_better_ratio"
                        },
                        None,
                        format!(
                            "{me} (tip/gas {}/{}) admitted although it collides on {why} with {} whose subtree ({} txs) has tip/gas {tip}/{gas}",
                            t.tip,
                            t.max_gas,
                            short_id(&k.id),
                            sub.len()
                        ),
                    ));
                }
                for s in &sub {
                    if after.contains(s) {
                        out.push(adm(
                            "c19 collided_subtree_not_evicted",
                            None,
                            format!(
                                "{me} admitted colliding on {why} with {}; {} of that subtree is still pooled",
                                short_id(&k.id),
                                short_id(s)
                            ),
                        ));
                    }
                }
            }
        }
    }
    out
}

/// Is this a "plain" submission that must be accepted? (never seen id, every
/// input on chain with matching fields and not handed out, no collision, no
/// pool dependency, room in the pool, utxo validation on)
pub fn is_plain(t: &TxInfo, before: &Snap, chain: &ChainState, model: &Model, cfg: &Cfg, seen: &BTreeSet<fuel_core_types::fuel_tx::TxId>) -> bool {
    if !cfg.utxo_validation || t.max_gas == 0 || seen.contains(&t.id) {
        return false;
    }
    if before.contains(&t.id) || chain.txs.contains(&t.id) || model.unsettled.contains_key(&t.id) {
        return false;
    }
    if let Some(b) = &t.blob
        && chain.blobs.contains(b)
    {
        return false;
    }
    for (u, f) in &t.coins {
        if chain.coins.get(u) != Some(f)
            || model.handed_out_coin(u).is_some()
            || before.contains(u.tx_id())
            || model.cache.ever.contains(&Key::Coin(*u))
        {
            return false;
        }
    }
    for m in &t.msgs {
        match chain.messages.get(&m.nonce) {
            Some(cm)
                if cm.sender == m.sender
                    && cm.recipient == m.recipient
                    && cm.amount == m.amount
                    && cm.data == m.data => {}
            _ => return false,
        }
        if model.handed_out_msg(&m.nonce).is_some() || model.cache.ever.contains(&Key::Msg(m.nonce)) {
            return false;
        }
    }
    if t.contracts.iter().any(|c| !chain.contracts.contains(c)) {
        return false;
    }
    // a pooled creator of one of its contracts makes it a dependent transaction
    if before
        .txs
        .values()
        .any(|p| p.created_contracts().any(|x| t.contracts.contains(&x)))
    {
        return false;
    }
    if before.txs.values().any(|k| conflict(t, k).is_some()) {
        return false;
    }
    // a pooled transaction already referring to an output of this id
    if before
        .txs
        .values()
        .any(|k| k.coins.iter().any(|(u, _)| u.tx_id() == &t.id))
    {
        return false;
    }
    let s = before.sums();
    s.count + 1 <= cfg.max_txs as u64
        && s.gas.saturating_add(t.max_gas) <= cfg.max_gas
        && s.size + t.size as u64 <= cfg.max_bytes as u64
}

pub fn is_plain_step(step: &Step, model: &Model, cfg: &Cfg, seen: &BTreeSet<fuel_core_types::fuel_tx::TxId>) -> bool {
    match &step.op {
        Op::Insert { info, .. } => {
            !step.lagging && is_plain(info, &step.before, &step.chain, model, cfg, seen)
        }
        _ => false,
    }
}

/// Judge the submitted transaction of an insert step (model = state before the step).
pub fn check_main(step: &Step, model: &Model, cfg: &Cfg, seen: &BTreeSet<fuel_core_types::fuel_tx::TxId>) -> Vec<AdmFinding> {
    let mut out = Vec::new();
    let Op::Insert { info, .. } = &step.op else {
        return out;
    };
    match step.insert.as_ref() {
        Some(Outcome::Inserted) => {
            out.extend(judge_admitted(
                info,
                &step.before,
                Some(&step.after),
                &step.chain,
                &step.truth,
                model,
                cfg,
            ));
        }
        Some(other) => {
            if !step.lagging && is_plain(info, &step.before, &step.chain, model, cfg, seen) {
                out.push(adm(
                    "c19 plain_tx_rejected",
                    None,
                    format!(
                        "{} has a fresh id, all inputs on chain and untouched, no collision, room in the pool, but insert returned {}",
                        info.short(),
                        other.short()
                    ),
                ));
            }
        }
        None => {}
    }
    out
}

/// Judge pending transactions that were admitted as a follow-up of the step.
/// The worker inserts them after the step's own reconciliation, so `model` must be
/// the state AFTER the step.
pub fn followups(step: &Step, model: &Model, cfg: &Cfg) -> Vec<AdmFinding> {
    let mut out = Vec::new();
    for (id, o) in &step.followups {
        if !o.is_inserted() {
            continue;
        }
        let Some((_, info)) = model.store.get(id) else {
            continue;
        };
        // the exact pool content at the moment of this follow-up insert is not
        // observable; use everything that was pooled before or after (lenient)
        let mut view = step.before.clone();
        for (k, v) in &step.after.txs {
            view.txs.entry(*k).or_insert_with(|| v.clone());
        }
        if let Op::Insert { info: main, .. } = &step.op {
            view.txs.entry(main.id).or_insert_with(|| main.clone());
        }
        view.txs.remove(id);
        out.extend(judge_admitted(info, &view, None, &step.chain, &step.truth, model, cfg));
    }
    out
}
