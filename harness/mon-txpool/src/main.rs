//! mon-txpool: runtime monitors for the transaction pool properties C16-C21.
//!
//! One synchronous driver (hook H1, `fuel_core_txpool::verif_hooks::VerifPool`)
//! wraps the REAL pool worker. Histories of operations (insert, extraction, block
//! import, preconfirmations, TTL expiry, pending-pool expiry) are generated over
//! small alphabets; after every operation the pool is snapshotted through its read
//! accessors and the oracle of the selected property judges the step.

mod c16;
mod c17;
mod c18;
mod c19;
mod c20;
mod c21;
mod hist;
mod model;
mod snap;
mod txgen;
mod world;

use hist::{
    Hist,
    Ran,
};
use model::*;
use snap::{
    Graph,
    TxInfo,
};
use std::{
    collections::BTreeMap,
    sync::Arc,
};
use vcommon::{
    rand::{
        Rng,
        rngs::StdRng,
        seq::SliceRandom,
    },
    serde_json::json,
    *,
};
use world::SinkEvent;

fn focus_of(p: &str) -> Option<Focus> {
    Some(match p {
        "C16" => Focus::C16,
        "C17" => Focus::C17,
        "C18" => Focus::C18,
        "C19" => Focus::C19,
        "C20" => Focus::C20,
        "C21" => Focus::C21,
        _ => return None,
    })
}

/// structural key of a step (what makes two judged cases "the same shape")
fn shape(step: &Step) -> u64 {
    let g = Graph::of(&step.before);
    let mut pool: Vec<(&'static str, u64, u64, usize, usize)> = step
        .before
        .txs
        .values()
        .map(|t| {
            (
                t.kind,
                t.tip,
                t.max_gas,
                g.parents.get(&t.id).map(|p| p.len()).unwrap_or(0),
                g.children.get(&t.id).map(|p| p.len()).unwrap_or(0),
            )
        })
        .collect();
    pool.sort();
    let opd = match &step.op {
        Op::Insert { info, .. } => format!(
            "i{}{}{}{}{}{:?}",
            info.kind,
            info.tip,
            info.max_gas,
            info.coins.len(),
            info.outputs.len(),
            step.insert.as_ref().map(|o| o.is_inserted())
        ),
        Op::Extract {
            min_price,
            max_gas,
            max_txs,
            max_size,
            excluded,
        } => format!(
            "e{min_price}{max_gas}{max_txs}{max_size}{}:{:?}",
            excluded.len(),
            step.extracted
                .iter()
                .map(|t| (t.tip, t.max_gas))
                .collect::<Vec<_>>()
        ),
        Op::Block { txs, .. } => format!("b{}", txs.len()),
        Op::Preconf {
            kind,
            stale,
            outputs,
            ..
        } => format!("p{kind:?}{stale}{}", outputs.is_some()),
        Op::Expire { ids } => format!("x{}", ids.len()),
        Op::ExpirePending => "xp".into(),
    };
    hash64(&(
        pool,
        opd,
        step.after.txs.len(),
        step.followups.len(),
        step.sink.len(),
    ))
}

/// Harness-side perturbation of what the oracle gets to see (oracle self-test).
/// Returns true when the observation was actually corrupted.
fn perturb(step: &mut Step, focus: Focus, n: u32, rng: &mut StdRng) -> bool {
    match (focus, n) {
        (Focus::C16, 1) => {
            // the observed pool content loses one transaction
            let Some(id) = step.after.txs.keys().next().copied() else {
                return false;
            };
            step.after.txs.remove(&id);
            true
        }
        (Focus::C16, _) => {
            // a second transaction with the same inputs shows up (stats adjusted)
            let Some(t) = step.after.txs.values().next().cloned() else {
                return false;
            };
            let mut fake = TxInfo::clone(&t);
            fake.id = txgen::test_tx_id(0xFFFF_0000 + rng.gen_range(0..1000));
            for s in [&mut step.after.published, &mut step.after.accounting] {
                s.count += 1;
                s.gas += fake.max_gas;
                s.size += fake.size as u64;
            }
            step.after.txs.insert(fake.id, Arc::new(fake));
            true
        }
        (Focus::C17, 1) => {
            // swap a parent with its child in the extraction result
            let g = Graph::of(&step.before);
            for i in 0..step.extracted.len() {
                for j in i + 1..step.extracted.len() {
                    if g.parents
                        .get(&step.extracted[j].id)
                        .is_some_and(|p| p.contains(&step.extracted[i].id))
                    {
                        step.extracted.swap(i, j);
                        return true;
                    }
                }
            }
            false
        }
        (Focus::C17, _) => {
            // a dependent of a removed transaction "survives"
            let g = Graph::of(&step.before);
            let incl = step.inclusion_exits();
            for x in step.before.txs.keys() {
                if step.after.contains(x) || incl.contains(x) {
                    continue;
                }
                if let Some(d) = g.descendants(x).into_iter().next() {
                    let info = step.before.txs[&d].clone();
                    step.after.txs.insert(d, info);
                    return true;
                }
            }
            false
        }
        (Focus::C18, 1) => {
            // the oracle is told a stricter gas limit than the pool got
            if step.extracted.is_empty() {
                return false;
            }
            let sum: u64 = step.extracted.iter().map(|t| t.max_gas).sum();
            if let Op::Extract { max_gas, .. } = &mut step.op {
                *max_gas = sum - 1;
                return true;
            }
            false
        }
        (Focus::C18, 2) => {
            // the extraction result is observed in reverse order
            if step.extracted.len() < 2 {
                return false;
            }
            let f = &step.extracted[0];
            let l = &step.extracted[step.extracted.len() - 1];
            if (f.tip + 1) as u128 * l.max_gas as u128 == (l.tip + 1) as u128 * f.max_gas as u128 {
                return false;
            }
            step.extracted.reverse();
            true
        }
        (Focus::C18, _) => {
            // an extracted transaction is still observed in the pool
            let Some(t) = step.extracted.first().cloned() else {
                return false;
            };
            step.after.txs.insert(t.id, t);
            true
        }
        (Focus::C19, 1) => {
            // a wrapper that reports a rejection as success
            if let Some(Outcome::Rejected(e)) = &step.insert {
                let interesting = e.is_duplicate_tx()
                    || matches!(
                        e,
                        fuel_core_txpool::error::Error::UtxoInputWasAlreadySpent(_)
                            | fuel_core_txpool::error::Error::Collided(_)
                            | fuel_core_txpool::error::Error::InputValidation(_)
                    );
                if interesting {
                    step.insert = Some(Outcome::Inserted);
                    return true;
                }
            }
            false
        }
        (Focus::C19, 2) => {
            // the oracle's chain lacks a coin the admitted transaction spends
            if let (Op::Insert { info, .. }, Some(Outcome::Inserted)) = (&step.op, &step.insert) {
                for (u, _) in &info.coins {
                    if step.chain.coins.remove(u).is_some() {
                        return true;
                    }
                }
            }
            false
        }
        (Focus::C19, _) => {
            // a wrapper that reports success as a rejection
            if let Some(Outcome::Inserted) = &step.insert {
                step.insert = Some(Outcome::Rejected(
                    fuel_core_txpool::error::Error::NotInsertedLimitHit,
                ));
                return true;
            }
            false
        }
        (Focus::C20, 1) => {
            // a committed transaction is still observed in the pool
            if let Op::Block { txs, .. } = &step.op
                && let Some(t) = txs.first().cloned()
            {
                step.after.txs.insert(t.id, t);
                return true;
            }
            false
        }
        (Focus::C20, _) => {
            // the oracle is told a current preconfirmation was stale
            if let Op::Preconf {
                stale,
                kind: PKind::Success | PKind::Failure,
                id,
                ..
            } = &mut step.op
                && !*stale
                && step.before.txs.contains_key(id)
            {
                *stale = true;
                return true;
            }
            false
        }
        (Focus::C21, 1) => {
            // one squeezed-out report is lost on the way to the checker
            if let Some(i) = step
                .sink
                .iter()
                .position(|e| matches!(e, SinkEvent::SqueezedOut(..)))
            {
                step.sink.remove(i);
                return true;
            }
            false
        }
        (Focus::C21, 2) => {
            // one squeezed-out report is delivered twice
            if let Some(e) = step
                .sink
                .iter()
                .find(|e| matches!(e, SinkEvent::SqueezedOut(..)))
                .cloned()
            {
                step.sink.push(e);
                return true;
            }
            false
        }
        (Focus::C21, _) => {
            // an extracted transaction is reported squeezed out
            if let Some(t) = step.extracted.choose(rng) {
                step.sink
                    .push(SinkEvent::SqueezedOut(t.id, "selftest".to_string()));
                return true;
            }
            false
        }
    }
}

fn err_class(e: &fuel_core_txpool::error::Error) -> String {
    let s = format!("{e:?}");
    let mut parts = s.split('(');
    let a: String = parts
        .next()
        .unwrap_or("")
        .chars()
        .take_while(|c| c.is_alphanumeric())
        .collect();
    if matches!(
        a.as_str(),
        "InputValidation" | "Collided" | "Dependency" | "Blacklisted"
    ) {
        let b: String = parts
            .next()
            .unwrap_or("")
            .chars()
            .take_while(|c| c.is_alphanumeric())
            .collect();
        format!("{a}.{b}")
    } else {
        a
    }
}

/// Which property owns a panic inside the pool? The repo's `debug_assert!`s on
/// the dependency graph / promotion belong to C17, the ones on pool accounting,
/// collision and selection indexes to C16.
fn panic_owner(msg: &str) -> Focus {
    if msg.contains("storage/graph.rs") || msg.to_lowercase().contains("dependent") {
        Focus::C17
    } else {
        Focus::C16
    }
}

fn panic_sig(owner: Focus, opk: &str, msg: &str) -> String {
    let payload = msg.split(" [").next().unwrap_or("");
    let file = msg
        .split("panicked at ")
        .nth(1)
        .and_then(|s| s.split(':').next())
        .map(|f| f.rsplit('/').next().unwrap_or("").to_string())
        .unwrap_or_default();
    let text: String = payload
        .chars()
        .filter(|c| !c.is_ascii_digit())
        .take(80)
        .collect();
    format!(
        "c{} pool_panic op={opk} at={file} msg={}",
        if owner == Focus::C16 { 16 } else { 17 },
        text.trim()
    )
}

struct Totals {
    counters: BTreeMap<String, u64>,
}

impl Totals {
    fn add(&mut self, k: &str, n: u64) {
        *self.counters.entry(k.to_string()).or_insert(0) += n;
    }
}

#[allow(clippy::too_many_arguments)]
fn run_history(
    report: &Report,
    args: &Args,
    focus: Focus,
    shard: usize,
    shard_seed: u64,
    iter: u64,
    n_ops: usize,
    selftest: Option<u32>,
) {
    let mut rng = rng_for(shard_seed, &[iter]);
    let validation_on = match focus {
        Focus::C19 | Focus::C20 => true,
        _ => chance(&mut rng, 80),
    };
    let cfg = if chance(&mut rng, 60) {
        hist::tiny_cfg(&mut rng, validation_on)
    } else {
        hist::default_cfg(&mut rng, validation_on)
    };
    let mut prng = rng_for(shard_seed, &[iter, 7]);
    let parent_child_blocks = match args.extra.get("parent-child-blocks").map(|s| s.as_str()) {
        Some("on") => true,
        Some("off") => false,
        // blocks that contain a pooled parent together with its pooled child are the
        // normal case on a non-producer node
        _ => true,
    };
    let mut h = Hist::new(cfg.clone(), focus, rng, parent_child_blocks);
    let mut tot = Totals {
        counters: BTreeMap::new(),
    };
    tot.add(&format!("histories.cfg.{}", cfg.name), 1);
    tot.add(
        if cfg.utxo_validation {
            "histories.utxo_validation_on"
        } else {
            "histories.utxo_validation_off"
        },
        1,
    );
    let pre = if selftest.is_some() { "selftest:" } else { "" };
    let mut evals = 0u64;
    let replay = |h: &Hist| {
        json!({
            "seed": shard_seed,
            "shard": shard,
            "iteration": iter,
            "property": args.property,
            "config": format!("{:?}", h.cfg),
            "ops": h.log,
        })
    };
    for i in 0..n_ops {
        let op = h.gen_op();
        if let Op::Insert { why, .. } = &op {
            tot.add(&format!("insert.category.{why}"), 1);
        }
        let step = match h.run(i, op) {
            Ran::Panic(opk, msg) => {
                tot.add("panics", 1);
                match focus {
                    Focus::C16 | Focus::C17 if panic_owner(&msg) == focus => report.violation(
                        format!("{pre}{}", panic_sig(focus, &opk, &msg)),
                        format!("the pool panicked (debug assertions on) in {opk}: {msg}"),
                        replay(&h),
                    ),
                    // the pool's own assertions inside extraction state that what is handed
                    // out has no pooled parent left: C18's parent-before-child claim
                    Focus::C18 if opk == "extract" => report.violation(
                        format!(
                            "{pre}{}",
                            panic_sig(Focus::C17, &opk, &msg).replacen("c17", "c18", 1)
                        ),
                        format!("the pool panicked (debug assertions on) during extraction: {msg}"),
                        replay(&h),
                    ),
                    _ => report.inconclusive(format!(
                        "pool panicked in {opk} (not judged by {}): {msg}; history seed {shard_seed} iteration {iter}",
                        args.property
                    )),
                }
                break;
            }
            Ran::Step(s) => *s,
        };
        tot.add(&format!("ops.{}", step.op.kind()), 1);
        match &step.insert {
            Some(Outcome::Inserted) => tot.add("insert.outcome.inserted", 1),
            Some(Outcome::Pending) => tot.add("insert.outcome.pending", 1),
            Some(Outcome::Rejected(e)) => {
                tot.add(&format!("insert.rejected.{}", err_class(e)), 1)
            }
            None => {}
        }
        if let Op::Insert { info, .. } = &step.op {
            let admitted = matches!(step.insert, Some(Outcome::Inserted));
            if step.lagging {
                let hits = info.coins.iter().any(|(u, _)| {
                    step.truth.spent_coins.contains(u)
                        && step.chain.coins.contains_key(u)
                        && h.model.pooled_committed_inputs.contains(&Key::Coin(*u))
                }) || info.msgs.iter().any(|m| {
                    step.truth.spent_messages.contains(&m.nonce)
                        && step.chain.messages.contains_key(&m.nonce)
                        && h.model.pooled_committed_inputs.contains(&Key::Msg(m.nonce))
                });
                if hits {
                    tot.add(
                        if admitted {
                            "probe.stale_view.respend_input_of_imported_pooled_tx.accepted"
                        } else {
                            "probe.stale_view.respend_input_of_imported_pooled_tx.not_accepted"
                        },
                        1,
                    );
                }
            }
            for (pos, v) in info.variants.iter().enumerate() {
                tot.add(&format!("insert.submitted.variant.{v}"), 1);
                if admitted {
                    tot.add(&format!("insert.admitted.variant.{v}"), 1);
                    if pos > 0 {
                        tot.add(&format!("insert.admitted.variant_not_first.{v}"), 1);
                    }
                }
            }
            let kind = |d: &Vec<u8>| if d.is_empty() { "coin" } else { "data" };
            for m in &info.msgs {
                for k in step.before.txs.values() {
                    if k.id == info.id {
                        continue;
                    }
                    for km in &k.msgs {
                        if km.nonce == m.nonce {
                            tot.add(
                                &format!(
                                    "insert.message_collision.{}_vs_pooled_{}{}",
                                    kind(&m.data),
                                    kind(&km.data),
                                    if admitted { ".admitted" } else { ".rejected" }
                                ),
                                1,
                            );
                        }
                    }
                }
            }
            if admitted {
                let p_owner = txgen::predicate_owner();
                if info.coins.iter().any(|(u, f)| {
                    f.owner == p_owner && step.before.contains(u.tx_id())
                }) && info.variants.contains(&"coin_predicate")
                {
                    tot.add("insert.admitted_with_pool_parent_via_predicate_input", 1);
                }
                if info.contracts.len() >= 2 {
                    tot.add("insert.admitted_with_2plus_contract_inputs", 1);
                }
            }
        }
        for (_, o) in &step.followups {
            match o {
                Outcome::Inserted => tot.add("followup.inserted", 1),
                Outcome::Pending => tot.add("followup.pending", 1),
                Outcome::Rejected(_) => tot.add("followup.rejected", 1),
            }
        }
        if let Op::Extract { .. } = &step.op {
            tot.add("extract.txs", step.extracted.len() as u64);
            if step.extracted.len() >= 2 {
                tot.add("extract.with_2plus_txs", 1);
            }
        }
        for e in &step.sink {
            match e {
                SinkEvent::Submitted(_) => tot.add("sink.submitted", 1),
                SinkEvent::SqueezedOut(..) => tot.add("sink.squeezed_out", 1),
                SinkEvent::Other(..) => tot.add("sink.other", 1),
            }
        }
        tot.add("pool.size_sum", step.after.txs.len() as u64);
        if step.after.txs.len() >= cfg.max_txs {
            tot.add("pool.full_snapshots", 1);
        }
        let edges = Graph::of(&step.after).edge_count();
        if edges > 0 {
            tot.add("pool.snapshots_with_dependencies", 1);
        }

        // the oracle may be fed a corrupted observation (self-test only)
        let mut seen_step = step.clone();
        let perturbed = match selftest {
            Some(n) => perturb(&mut seen_step, focus, n, &mut prng),
            None => false,
        };
        if perturbed {
            tot.add("selftest.perturbations_applied", 1);
        }
        let judged = if selftest.is_some() { &seen_step } else { &step };

        // the admission oracle always runs: a C19-class finding taints the rest of
        // the history for every property (the pool then holds what it must not hold)
        let mut adm = c19::check_main(judged, &h.model, &h.cfg, &h.seen);
        let mut findings: Vec<Finding> = Vec::new();
        let nontrivial;
        match focus {
            Focus::C16 => {
                findings = c16::check(judged);
                nontrivial = step.before.ids() != step.after.ids();
            }
            Focus::C17 => {
                findings = c17::check(judged, &h.model, &h.cfg);
                nontrivial = c17::nontrivial(&step);
            }
            Focus::C18 => {
                findings = c18::check(judged);
                nontrivial = c18::nontrivial(&step);
                if let Op::Extract {
                    max_gas,
                    max_txs,
                    max_size,
                    min_price,
                    excluded,
                } = &step.op
                {
                    // which constraints were binding (left something executable behind)?
                    let g = Graph::of(&step.after);
                    let left: Vec<_> = step
                        .after
                        .txs
                        .values()
                        .filter(|t| g.parents.get(&t.id).is_none_or(|p| p.is_empty()))
                        .collect();
                    let gas: u64 = step.extracted.iter().map(|t| t.max_gas).sum();
                    let size: u64 = step.extracted.iter().map(|t| t.size as u64).sum();
                    if left.iter().any(|t| t.max_gas > max_gas.saturating_sub(gas)) {
                        tot.add("extract.gas_limit_binding", 1);
                    }
                    if left
                        .iter()
                        .any(|t| t.size as u64 > (*max_size as u64).saturating_sub(size))
                    {
                        tot.add("extract.size_limit_binding", 1);
                    }
                    if !left.is_empty() && step.extracted.len() == *max_txs as usize {
                        tot.add("extract.count_limit_binding", 1);
                    }
                    if left.iter().any(|t| t.max_gas_price < *min_price) {
                        tot.add("extract.min_price_binding", 1);
                    }
                    if left
                        .iter()
                        .any(|t| t.contracts.iter().any(|c| excluded.contains(c)))
                    {
                        tot.add("extract.excluded_contract_binding", 1);
                    }
                    if left.iter().any(|t| {
                        t.contracts.len() >= 2
                            && !excluded.contains(&t.contracts[0])
                            && t.contracts[1..].iter().any(|c| excluded.contains(c))
                    }) {
                        tot.add("extract.excluded_only_via_non_first_contract_input", 1);
                    }
                    let gb = Graph::of(&step.before);
                    if step
                        .extracted
                        .iter()
                        .any(|t| gb.parents.get(&t.id).is_some_and(|p| !p.is_empty()))
                    {
                        tot.add("extract.with_dependent_tx", 1);
                    }
                }
            }
            Focus::C19 => {
                nontrivial = matches!(step.op, Op::Insert { .. });
            }
            Focus::C20 => {
                findings = c20::check(judged, &h.model, &h.cfg);
                nontrivial = c20::nontrivial(&step, &h.model);
                if let Op::Block { height, txs } = &step.op {
                    if txs.iter().any(|t| step.before.contains(&t.id)) {
                        tot.add("block.commits_pooled_tx", 1);
                    }
                    if txs.iter().any(|t| h.model.unsettled.contains_key(&t.id)) {
                        tot.add("block.commits_handed_out_tx", 1);
                    }
                    for (id, u) in &h.model.unsettled {
                        if matches!(u.state, UState::Tentative { height: hh } if hh <= *height)
                        {
                            if txs.iter().any(|t| &t.id == id) {
                                tot.add("block.confirms_preconfirmed_tx", 1);
                            } else {
                                tot.add("block.rolls_back_preconfirmed_tx", 1);
                                if step
                                    .before
                                    .txs
                                    .values()
                                    .any(|t| t.coins.iter().any(|(c, _)| c.tx_id() == id))
                                {
                                    tot.add("block.rollback_with_pooled_dependents", 1);
                                }
                            }
                        }
                    }
                }
                if let Op::Insert { info, .. } = &step.op
                    && h.model.rolled_back.contains(&info.id)
                {
                    tot.add(
                        if matches!(step.insert, Some(Outcome::Inserted)) {
                            "probe.rolled_back_resubmission.accepted"
                        } else {
                            "probe.rolled_back_resubmission.not_accepted"
                        },
                        1,
                    );
                }
            }
            Focus::C21 => {
                findings = c21::check(judged, &h.model);
                nontrivial = c21::nontrivial(&step);
                let incl = step.inclusion_exits();
                for x in step.before.txs.keys() {
                    if !step.after.contains(x) {
                        if incl.contains(x) {
                            tot.add("exits.inclusion", 1);
                        } else {
                            tot.add(&format!("exits.non_inclusion.{}", step.op.kind()), 1);
                        }
                    }
                }
            }
        }
        // probes aimed at reconciliation (counted for every focus)
        if let Op::Insert { info, why, .. } = &step.op
            && why.starts_with("spend_")
        {
            let _ = info;
            tot.add(
                &format!(
                    "probe.{why}.{}",
                    if matches!(step.insert, Some(Outcome::Inserted)) {
                        "accepted"
                    } else {
                        "not_accepted"
                    }
                ),
                1,
            );
        }
        if matches!(step.op, Op::Insert { .. })
            && c19::is_plain_step(&step, &h.model, &h.cfg, &h.seen)
        {
            tot.add("insert.plain_case", 1);
        }
        if let (Op::Insert { info, .. }, Some(Outcome::Inserted)) = (&step.op, &step.insert) {
            let collided = step
                .before
                .txs
                .values()
                .any(|k| snap::conflict(info, k).is_some());
            if collided {
                tot.add("insert.admitted_over_collision", 1);
            }
            if info.coins.iter().any(|(u, _)| step.before.contains(u.tx_id())) {
                tot.add("insert.admitted_with_pool_parent", 1);
            }
            if info
                .coins
                .iter()
                .any(|(u, _)| h.model.unsettled.contains_key(u.tx_id()))
            {
                tot.add("insert.admitted_spending_unsettled_output", 1);
            }
            let evicted = step
                .before
                .txs
                .keys()
                .filter(|x| !step.after.contains(x))
                .count();
            if evicted > 0 && !collided {
                tot.add("insert.admitted_with_space_eviction", 1);
            }
        }

        // bring the model up to date with what really happened, then judge follow-ups
        h.apply(&step);
        adm.extend(c19::followups(judged, &h.model, &h.cfg));

        evals += 1;
        if nontrivial {
            report.distinct_hash(shape(&step));
            tot.add("steps.nontrivial", 1);
            if report.wants_sample() && step.before.txs.len() >= 2 {
                report.sample(json!({
                    "config": format!("{:?}", h.cfg),
                    "history_so_far": h.log,
                }));
            }
        }
        for f in &findings {
            report.violation(format!("{pre}{}", f.sig), f.detail.clone(), replay(&h));
        }
        match focus {
            Focus::C19 => {
                for f in &adm {
                    report.violation(format!("{pre}{}", f.sig19), f.detail.clone(), replay(&h));
                }
            }
            Focus::C20 => {
                for f in &adm {
                    if let Some(s) = &f.sig20 {
                        report.violation(format!("{pre}{s}"), f.detail.clone(), replay(&h));
                    }
                }
            }
            _ => {}
        }
        if !adm.is_empty() && args.extra.contains_key("debug-adm") {
            for f in &adm {
                if !f.sig19.contains("cache_forgot=true") {
                    report.note(format!("{} | {} | {:?} | {}", f.sig19, f.detail, h.cfg, h.log.join("\n")));
                }
            }
        }
        if !adm.is_empty() && selftest.is_none() {
            tot.add("histories.cut_after_admission_finding", 1);
            for f in &adm {
                tot.add(&format!("admission_finding.{}", f.sig19.replace(' ', "_")), 1);
            }
            break;
        }
        if !findings.is_empty() && selftest.is_none() {
            break;
        }
    }
    tot.add(
        "admission.not_judged.double_claimed_input_released",
        h.model
            .excluded_released
            .load(std::sync::atomic::Ordering::Relaxed),
    );
    report.evals(evals);
    for (k, v) in h.counters.iter().chain(tot.counters.iter()) {
        report.add(k, *v);
    }
    report.add("histories", 1);
}

fn main() {
    let args = Args::parse();
    install_quiet_panic_hook();
    let report = Report::new(&args.property);
    let Some(focus) = focus_of(&args.property) else {
        report.inconclusive(format!(
            "property {} not implemented in this monitor",
            args.property
        ));
        report.finish(&args, "exploration", "", false, &[]);
        return;
    };
    let selftest: Option<u32> = args.extra.get("selftest").and_then(|s| s.parse().ok());
    let n_ops = args.by_tier(70usize, 110usize);
    let per_shard: u64 = args
        .extra
        .get("histories-per-shard")
        .and_then(|s| s.parse().ok())
        .unwrap_or(args.by_tier(200u64, 3000u64));
    let shards = 64usize;

    if let Some(r) = read_replay(&args) {
        let seed = r["seed"].as_u64().unwrap_or(0);
        let iter = r["iteration"].as_u64().unwrap_or(0);
        let shard = r["shard"].as_u64().unwrap_or(0) as usize;
        // the pool iterates over hash sets with per-instance random order; a few
        // outcomes (e.g. which of parent/child is committed first) depend on it, so
        // the same history is re-executed a few times until it shows the violation
        let mut runs = 0;
        for _ in 0..24 {
            runs += 1;
            run_history(&report, &args, focus, shard, seed, iter, n_ops, selftest);
            if report.violation_count() > 0 {
                break;
            }
        }
        report.note(format!(
            "replayed history seed {seed} iteration {iter} ({runs} executions)"
        ));
    } else {
        let (r2, a2) = (report.clone(), args.clone());
        run_shards(&report, &args, shards, move |shard, seed| {
            for iter in 0..per_shard {
                run_history(&r2, &a2, focus, shard, seed, iter, n_ops, selftest);
            }
        });
        thresholds(&report, focus, selftest.is_some());
    }

    let rule = match focus {
        Focus::C16 => "case = one executed operation of a generated history (insert with collisions/dependencies/evictions, extraction, block import, preconfirmation success/failure/squeeze-out current+stale, TTL expiry, pending expiry) on tiny or default pool limits; non-trivial = the operation changed the set of pooled transactions; distinct = hash of (multiset of pooled (kind,tip,gas,#parents,#children), operation shape, result sizes)",
        Focus::C17 => "case = one executed operation; non-trivial = the pool's derived dependency graph had edges and the operation removed a transaction with dependents without inclusion, extracted a transaction with dependents, or added a dependency edge; distinct as for C16",
        Focus::C18 => "case = one extraction with generated constraints on a generated pool; non-trivial = at least 2 transactions handed out; distinct = hash of (pool shape, constraints, (tip,gas) list handed out)",
        Focus::C19 => "case = one submission judged against the snapshot before it, the chain model and the list of handed-out/preconfirmed unsettled transactions; every insert is non-trivial; distinct = hash of (pool shape, submitted tx shape, outcome)",
        Focus::C20 => "case = one executed operation; non-trivial = block import that commits a pooled tx or omits a preconfirmed tx, a stale preconfirmation, or the resubmission of a rolled-back tx; distinct as for C16",
        Focus::C21 => "case = one executed operation with the status-sink log recorded during it; non-trivial = at least one transaction left the pool without inclusion; distinct as for C16",
    };
    report.finish(
        &args,
        "exploration",
        rule,
        false,
        &[
            "hook H1 (feature verif-hooks) drives the real PoolWorker methods synchronously; the production worker thread is single-threaded, so every behaviour is a sequential order of these operations",
            "transactions are built with the real TransactionBuilder and into_checked_basic; Metadata::new_test (chosen id/max_gas) and Metadata::new (chosen size/max_gas_price) as in the crate's own stability test",
            "persistent storage and status manager ports are harness implementations (chain model, recording sink); verification stage (signatures, predicates, fees) is not part of the pool worker and is bypassed",
            "blocks and preconfirmations offered to the pool are valid on the chain model (parents committed before children); Creates for contracts that already exist are not generated",
        ],
    );
}

fn thresholds(report: &Report, focus: Focus, selftest: bool) {
    if selftest {
        report.require("selftest.perturbations_applied", 10);
        return;
    }
    // roughly a quarter of what the quick tier (12 800 histories) observes for every seed tried
    report.require("histories", 12_000);
    report.require("ops.insert", 150_000);
    report.require("ops.extract", 12_000);
    report.require("ops.block", 9_000);
    report.require("ops.preconf", 4_000);
    report.require("ops.preconf_squeezed", 2_500);
    report.require("ops.preconf_stale", 1_200);
    report.require("ops.expire", 4_000);
    report.require("insert.outcome.inserted", 50_000);
    report.require("steps.nontrivial", 8_000);
    for v in [
        "coin_signed",
        "coin_predicate",
        "contract",
        "message_coin_signed",
        "message_coin_predicate",
        "message_data_signed",
        "message_data_predicate",
    ] {
        report.require(&format!("insert.admitted.variant.{v}"), 1_000);
    }
    report.require("insert.admitted_with_2plus_contract_inputs", 1_000);
    report.require("insert.admitted_with_pool_parent_via_predicate_input", 1_000);
    match focus {
        Focus::C16 => {
            report.require("insert.admitted_over_collision", 7_000);
            report.require("insert.admitted_with_space_eviction", 3_000);
            report.require("pool.full_snapshots", 20_000);
            report.require("sink.squeezed_out", 25_000);
            for k in [
                "data_vs_pooled_data",
                "data_vs_pooled_coin",
                "coin_vs_pooled_data",
                "coin_vs_pooled_coin",
            ] {
                report.require(&format!("insert.message_collision.{k}.rejected"), 100);
                report.require(&format!("insert.message_collision.{k}.admitted"), 30);
            }
        }
        Focus::C17 => {
            report.require("pool.snapshots_with_dependencies", 100_000);
            report.require("insert.admitted_with_pool_parent", 20_000);
            report.require(
                "insert.rejected.Dependency.NotInsertedChainDependencyTooBig",
                1_500,
            );
            report.require(
                "insert.rejected.Dependency.DependentTransactionIsADiamondDeath",
                1_000,
            );
        }
        Focus::C18 => {
            report.require("extract.with_2plus_txs", 8_000);
            report.require("extract.gas_limit_binding", 5_000);
            report.require("extract.size_limit_binding", 6_000);
            report.require("extract.count_limit_binding", 4_000);
            report.require("extract.min_price_binding", 9_000);
            report.require("extract.excluded_contract_binding", 400);
            report.require("extract.with_dependent_tx", 2_000);
            report.require("extract.excluded_only_via_non_first_contract_input", 100);
        }
        Focus::C19 => {
            report.require("insert.plain_case", 25_000);
            report.require("insert.admitted_over_collision", 6_000);
            report.require("insert.rejected.Collided.Utxo", 10_000);
            report.require("insert.rejected.InputValidation.DuplicateTxId", 20_000);
            report.require("insert.rejected.UtxoInputWasAlreadySpent", 15_000);
            report.require("insert.outcome.pending", 20_000);
            report.require("insert.admitted_spending_unsettled_output", 5_000);
            report.require(
                "probe.stale_view.respend_input_of_imported_pooled_tx.not_accepted",
                500,
            );
        }
        Focus::C20 => {
            report.require("block.commits_pooled_tx", 3_500);
            report.require("block.commits_handed_out_tx", 7_000);
            report.require("block.rolls_back_preconfirmed_tx", 5_000);
            report.require("block.rollback_with_pooled_dependents", 1_000);
            report.require("block.confirms_preconfirmed_tx", 4_000);
            report.require("probe.rolled_back_resubmission.accepted", 1_500);
            report.require("probe.spend_withdrawn_output.not_accepted", 1_200);
            report.require("probe.spend_committed_input.not_accepted", 3_000);
            report.require("probe.spend_stale_preconfirmed_output.not_accepted", 500);
            report.require("block.stale_view_after_import_of_pooled_not_extracted_tx", 800);
            report.require(
                "probe.stale_view.respend_input_of_imported_pooled_tx.not_accepted",
                700,
            );
        }
        Focus::C21 => {
            report.require("sink.squeezed_out", 30_000);
            report.require("exits.inclusion", 20_000);
            report.require("exits.non_inclusion.insert", 14_000);
            report.require("exits.non_inclusion.expire", 13_000);
            report.require("exits.non_inclusion.preconf_squeezed", 2_500);
            report.require("exits.non_inclusion.block", 1_000);
        }
    }
}
