//! Transaction factory: builds real `PoolTransaction`s (checked with the real
//! `into_checked_basic`) over small alphabets.

use crate::world::CoinFields;
use fuel_core_types::{
    fuel_tx::{
        Address,
        AssetId,
        BlobBody,
        BlobId,
        BlobIdExt,
        ConsensusParameters,
        Contract,
        ContractId,
        Finalizable,
        GasCosts,
        Input,
        Output,
        Salt,
        TransactionBuilder,
        TxId,
        UtxoId,
        field::Tip,
    },
    fuel_types::{
        BlockHeight,
        Nonce,
    },
    fuel_vm::checked_transaction::IntoChecked,
    services::txpool::{
        ArcPoolTx,
        Metadata,
        PoolTransaction,
    },
};
use std::sync::Arc;

pub const N_OWNERS: usize = 4;
pub const N_CREATABLE_CONTRACTS: usize = 3;
pub const N_GENESIS_CONTRACTS: usize = 2;
pub const N_BLOBS: usize = 4;

/// `RET $one`: the predicate of every predicate input
pub fn predicate_code() -> Vec<u8> {
    fuel_core_types::fuel_asm::op::ret(1).to_bytes().to_vec()
}

pub fn predicate_owner() -> Address {
    Input::predicate_owner(predicate_code())
}

/// owner alphabet; the last one is the owner of the predicate
pub fn owner(i: usize) -> Address {
    if i + 1 == N_OWNERS {
        return predicate_owner();
    }
    let mut b = [0u8; 32];
    b[0] = 0x11;
    b[1] = i as u8;
    b.into()
}

pub fn alt_asset() -> AssetId {
    [0x77u8; 32].into()
}

pub fn genesis_contract(i: usize) -> ContractId {
    let mut b = [0u8; 32];
    b[0] = 0xC0;
    b[1] = i as u8;
    b.into()
}

pub fn contract_code() -> Vec<u8> {
    vec![0x24, 0, 0, 0] // RET $zero
}

pub fn salt(i: usize) -> Salt {
    let mut b = [0u8; 32];
    b[0] = i as u8;
    b.into()
}

pub fn creatable_contract(i: usize) -> ContractId {
    let root = Contract::root_from_code(contract_code());
    Contract::id(&salt(i), &root, &Contract::default_state_root())
}

pub fn blob_data(i: usize) -> Vec<u8> {
    vec![i as u8; 8]
}

pub fn blob_id(i: usize) -> BlobId {
    BlobId::compute(&blob_data(i))
}

pub fn test_tx_id(n: u32) -> TxId {
    let mut b = [0u8; 32];
    b[0] = 0x7A;
    b[28..32].copy_from_slice(&n.to_be_bytes());
    b.into()
}

#[derive(Clone, Debug)]
pub struct CoinIn {
    pub utxo: UtxoId,
    pub f: CoinFields,
    /// build as `CoinPredicate` (only effective when the owner is the predicate owner)
    pub predicate: bool,
}

#[derive(Clone, Debug)]
pub struct MsgIn {
    pub nonce: Nonce,
    pub sender: Address,
    pub recipient: Address,
    pub amount: u64,
    /// non-empty => `MessageData*` input, empty => `MessageCoin*`
    pub data: Vec<u8>,
    /// build as predicate variant (only effective when the recipient is the predicate owner)
    pub predicate: bool,
}

#[derive(Clone, Debug, PartialEq, Eq)]
pub enum Kind {
    Script,
    Create(usize),
    Blob(usize),
}

#[derive(Clone, Debug)]
pub enum Meta {
    /// `Metadata::new_test`: harness-chosen id and max_gas, real size, price 0
    Test { id: TxId, max_gas: u64 },
    /// `Metadata::new`: real id, max_gas = script gas limit (free gas costs, 0 gas per byte),
    /// harness-chosen size and max gas price
    Real {
        gas_limit: u64,
        size: usize,
        max_gas_price: u64,
    },
}

#[derive(Clone, Debug)]
pub struct TxSpec {
    pub kind: Kind,
    pub meta: Meta,
    pub tip: u64,
    pub coins: Vec<CoinIn>,
    pub msgs: Vec<MsgIn>,
    pub contracts: Vec<ContractId>,
    pub coin_outputs: Vec<CoinFields>,
    pub change_to: Option<Address>,
    pub variable: bool,
    pub expiration: Option<u32>,
    /// seed of the permutation applied to the input list and to the output list
    /// (so that no role is tied to a position)
    pub shuffle: u64,
}

pub struct TxFactory {
    cp_test: ConsensusParameters,
    cp_real: ConsensusParameters,
}

impl TxFactory {
    pub fn new() -> Self {
        let mut cp_test = ConsensusParameters::standard();
        cp_test.set_gas_costs(GasCosts::free());
        let mut cp_real = ConsensusParameters::standard();
        cp_real.set_gas_costs(GasCosts::free());
        let fee = cp_real.fee_params().with_gas_per_byte(0);
        cp_real.set_fee_params(fee);
        TxFactory { cp_test, cp_real }
    }

    fn permute<T>(v: &mut [T], seed: u64) {
        // Fisher-Yates with a splitmix stream
        let mut x = seed ^ 0x9E37_79B9_7F4A_7C15;
        for i in (1..v.len()).rev() {
            x = x.wrapping_add(0x9E37_79B9_7F4A_7C15);
            let mut z = x;
            z = (z ^ (z >> 30)).wrapping_mul(0xBF58_476D_1CE4_E5B9);
            z = (z ^ (z >> 27)).wrapping_mul(0x94D0_49BB_1331_11EB);
            z ^= z >> 31;
            v.swap(i, (z % (i as u64 + 1)) as usize);
        }
    }

    /// inputs in their final order
    fn inputs(spec: &TxSpec) -> Vec<Input> {
        let p_owner = predicate_owner();
        let mut v = Vec::new();
        for c in &spec.coins {
            if c.predicate && c.f.owner == p_owner {
                v.push(Input::coin_predicate(
                    c.utxo,
                    c.f.owner,
                    c.f.amount,
                    c.f.asset,
                    Default::default(),
                    0,
                    predicate_code(),
                    vec![],
                ));
            } else {
                v.push(Input::coin_signed(
                    c.utxo,
                    c.f.owner,
                    c.f.amount,
                    c.f.asset,
                    Default::default(),
                    0,
                ));
            }
        }
        for m in &spec.msgs {
            let pred = m.predicate && m.recipient == p_owner;
            v.push(match (m.data.is_empty(), pred) {
                (true, false) => {
                    Input::message_coin_signed(m.sender, m.recipient, m.amount, m.nonce, 0)
                }
                (true, true) => Input::message_coin_predicate(
                    m.sender,
                    m.recipient,
                    m.amount,
                    m.nonce,
                    0,
                    predicate_code(),
                    vec![],
                ),
                (false, false) => Input::message_data_signed(
                    m.sender,
                    m.recipient,
                    m.amount,
                    m.nonce,
                    0,
                    m.data.clone(),
                ),
                (false, true) => Input::message_data_predicate(
                    m.sender,
                    m.recipient,
                    m.amount,
                    m.nonce,
                    0,
                    m.data.clone(),
                    predicate_code(),
                    vec![],
                ),
            });
        }
        for (i, c) in spec.contracts.iter().enumerate() {
            let mut u = [0u8; 32];
            u[0] = 0xCC;
            u[1] = i as u8;
            v.push(Input::contract(
                UtxoId::new(u.into(), 0),
                Default::default(),
                Default::default(),
                Default::default(),
                *c,
            ));
        }
        Self::permute(&mut v, spec.shuffle);
        v
    }

    /// outputs in their final order (the `ContractCreated` output of a Create is
    /// added by the caller, first or last)
    fn outputs(spec: &TxSpec, inputs: &[Input]) -> Vec<Output> {
        let mut v = Vec::new();
        for o in &spec.coin_outputs {
            v.push(Output::coin(o.owner, o.amount, o.asset));
        }
        if let Some(to) = spec.change_to {
            v.push(Output::change(to, 0, AssetId::BASE));
        }
        if spec.variable {
            v.push(Output::variable(Address::default(), 0, AssetId::default()));
        }
        for (i, input) in inputs.iter().enumerate() {
            if input.is_contract() {
                v.push(Output::contract(
                    i as u16,
                    Default::default(),
                    Default::default(),
                ));
            }
        }
        Self::permute(&mut v, spec.shuffle.rotate_left(17));
        v
    }

    /// Build and check the transaction. `Err` = rejected by the consensus checks
    /// (the generator then draws another one).
    pub fn build(&self, spec: &TxSpec) -> Result<ArcPoolTx, String> {
        let (cp, meta_of): (&ConsensusParameters, Box<dyn Fn() -> Metadata>) =
            match &spec.meta {
                Meta::Test { id, max_gas } => {
                    let (id, max_gas) = (*id, *max_gas);
                    (
                        &self.cp_test,
                        Box::new(move || Metadata::new_test(0, Some(max_gas), Some(id))),
                    )
                }
                Meta::Real {
                    size,
                    max_gas_price,
                    ..
                } => {
                    let (size, price) = (*size, *max_gas_price);
                    (&self.cp_real, Box::new(move || Metadata::new(0, size, price)))
                }
            };
        let inputs = Self::inputs(spec);
        let outputs = Self::outputs(spec, &inputs);
        let height = BlockHeight::new(0);
        let exp = spec.expiration.map(BlockHeight::new);
        let e = |e: fuel_core_types::fuel_vm::checked_transaction::CheckError| {
            format!("{e:?}")
        };
        let tx = match &spec.kind {
            Kind::Script => {
                let mut b = TransactionBuilder::script(vec![], vec![]);
                b.with_params(cp.clone());
                if let Meta::Real { gas_limit, .. } = &spec.meta {
                    b.script_gas_limit(*gas_limit);
                }
                for i in inputs {
                    b.add_input(i);
                }
                for o in outputs {
                    b.add_output(o);
                }
                if let Some(x) = exp {
                    b.expiration(x);
                }
                b.add_witness(Default::default());
                let mut tx = b.finalize();
                tx.set_tip(spec.tip);
                let checked = tx.into_checked_basic(height, cp).map_err(e)?;
                PoolTransaction::Script(checked, meta_of())
            }
            Kind::Create(s) => {
                let mut b =
                    TransactionBuilder::create(contract_code().into(), salt(*s), vec![]);
                b.with_params(cp.clone());
                for i in inputs {
                    b.add_input(i);
                }
                let created_first = spec.shuffle & 1 == 1;
                if created_first {
                    b.add_contract_created();
                }
                for o in outputs {
                    b.add_output(o);
                }
                if !created_first {
                    b.add_contract_created();
                }
                if let Some(x) = exp {
                    b.expiration(x);
                }
                let mut tx = b.finalize();
                tx.set_tip(spec.tip);
                let checked = tx.into_checked_basic(height, cp).map_err(e)?;
                PoolTransaction::Create(checked, meta_of())
            }
            Kind::Blob(i) => {
                let mut b = TransactionBuilder::blob(BlobBody {
                    id: blob_id(*i),
                    witness_index: 0,
                });
                b.with_params(cp.clone());
                b.add_witness(blob_data(*i).into());
                for i in inputs {
                    b.add_input(i);
                }
                for o in outputs {
                    b.add_output(o);
                }
                if let Some(x) = exp {
                    b.expiration(x);
                }
                let mut tx = b.finalize();
                tx.set_tip(spec.tip);
                let checked = tx.into_checked_basic(height, cp).map_err(e)?;
                PoolTransaction::Blob(checked, meta_of())
            }
        };
        Ok(Arc::new(tx))
    }
}
