//! C17: the dependency graph (derived from transaction contents) stays acyclic,
//! diamond-free and within the chain-length bound; parents are handed out before
//! children; a non-inclusion removal takes all transitive dependents with it.

use crate::{
    model::{
        Cfg,
        Finding,
        Model,
        Op,
        PKind,
        Step,
        UState,
        finding,
    },
    snap::{
        Graph,
        Out,
        short_id,
    },
};
use std::collections::BTreeMap;

pub fn check(step: &Step, model: &Model, cfg: &Cfg) -> Vec<Finding> {
    let mut out = Vec::new();
    let opk = step.op.kind();
    let g_after = Graph::of(&step.after);
    match g_after.topo() {
        None => out.push(finding(
            "c17 dependency_cycle",
            format!("after {opk}: derived dependency graph of the pool has a cycle"),
        )),
        Some(topo) => {
            if let Some((a, n)) = g_after.diamond(&topo) {
                out.push(finding(
                    "c17 diamond_dependency",
                    format!(
                        "after {opk}: {} depends on ancestor {} through two different paths",
                        short_id(&n),
                        short_id(&a)
                    ),
                ));
            }
            let longest = g_after.longest_chain(&topo);
            if longest > cfg.chain {
                out.push(finding(
                    "c17 chain_longer_than_limit",
                    format!(
                        "after {opk}: dependency chain of {longest} txs, max_txs_chain_count = {}",
                        cfg.chain
                    ),
                ));
            }
        }
    }

    let g_before = Graph::of(&step.before);

    // parents are handed out before children
    if let Op::Extract { .. } = &step.op {
        let pos: BTreeMap<_, _> = step
            .extracted
            .iter()
            .enumerate()
            .map(|(i, t)| (t.id, i))
            .collect();
        for (i, t) in step.extracted.iter().enumerate() {
            if let Some(ps) = g_before.parents.get(&t.id) {
                for p in ps {
                    match pos.get(p) {
                        None => out.push(finding(
                            "c17 child_extracted_without_parent",
                            format!(
                                "extraction returned {} but its pooled parent {} was not returned",
                                short_id(&t.id),
                                short_id(p)
                            ),
                        )),
                        Some(j) if *j > i => out.push(finding(
                            "c17 child_extracted_before_parent",
                            format!(
                                "extraction lists child {} at {i} before parent {} at {j}",
                                short_id(&t.id),
                                short_id(p)
                            ),
                        )),
                        _ => {}
                    }
                }
            }
        }
    }

    // cascading removal
    let incl = step.inclusion_exits();
    let cause = match &step.op {
        Op::Insert { .. } => "collision_or_eviction",
        Op::Extract { .. } => "vanished_during_extraction",
        Op::Block { .. } => "block_reconciliation",
        Op::Preconf {
            kind: PKind::Squeezed,
            ..
        } => "skipped",
        Op::Preconf { .. } => "preconfirmation",
        Op::Expire { .. } => "ttl",
        Op::ExpirePending => "pending_expiry",
    };
    for x in step.before.txs.keys() {
        if step.after.contains(x) || incl.contains(x) {
            continue;
        }
        // a dependent reached only through a transaction that left by inclusion in this
        // very step (e.g. committed by the block) depends on the chain now, not on `x`
        for d in g_before.descendants_avoiding(x, &incl) {
            if step.after.contains(&d) {
                out.push(finding(
                    format!("c17 dependent_survived_removal cause={cause}"),
                    format!(
                        "{opk}: {} left the pool without inclusion but its dependent {} is still pooled",
                        short_id(x),
                        short_id(&d)
                    ),
                ));
            }
        }
    }

    // a handed-out transaction that is skipped takes the spenders of its coin
    // outputs (and their dependents) with it
    if let Op::Preconf {
        id,
        kind: PKind::Squeezed,
        ..
    } = &step.op
        && !step.before.contains(id)
        && let Some(u) = model.unsettled.get(id)
        && u.state == UState::Extracted
    {
        for t in step.before.txs.values() {
            let spends = t.coins.iter().any(|(utxo, _)| {
                utxo.tx_id() == id
                    && matches!(u.info.coin_output(utxo.output_index()), Some(Out::Coin(_)))
            });
            if !spends {
                continue;
            }
            let mut gone = g_before.descendants(&t.id);
            gone.insert(t.id);
            for d in gone {
                if step.after.contains(&d) {
                    out.push(finding(
                        "c17 dependent_survived_removal cause=skipped_extracted",
                        format!(
                            "handed-out {} was skipped; {} (spends its output, directly or transitively) is still pooled",
                            short_id(id),
                            short_id(&d)
                        ),
                    ));
                }
            }
        }
    }
    out
}

/// is this step non-trivial for C17 (rule stated in main)?
pub fn nontrivial(step: &Step) -> bool {
    let g = Graph::of(&step.before);
    if g.edge_count() == 0 {
        return false;
    }
    match &step.op {
        Op::Extract { .. } => step
            .extracted
            .iter()
            .any(|t| g.children.get(&t.id).is_some_and(|c| !c.is_empty())),
        _ => {
            let incl = step.inclusion_exits();
            step.before.txs.keys().any(|x| {
                !step.after.contains(x)
                    && !incl.contains(x)
                    && g.children.get(x).is_some_and(|c| !c.is_empty())
            }) || Graph::of(&step.after).edge_count() > g.edge_count()
        }
    }
}
